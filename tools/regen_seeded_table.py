#!/usr/bin/env python3
"""Rewrites the table of independently seeded changes in DESIGN.md section 11 from seeded/*/meta.json."""
import json, os, re
root = os.path.dirname(os.path.dirname(os.path.abspath(__file__)))
p = os.path.join(root, "DESIGN.md")
s = open(p).read()
head = "| change (`seeded/…`) | property | needs to manifest | caught by | also run, silent |\n|---|---|---|---|---|\n"
i = s.index(head)
j = i + len(head)
k = j
while s[k:k+1] == "|":
    k = s.index("\n", k) + 1
rows = []
for name in sorted(os.listdir(os.path.join(root, "seeded"))):
    mp = os.path.join(root, "seeded", name, "meta.json")
    if not os.path.exists(mp):
        continue
    m = json.load(open(mp))
    needs = m["needs_to_manifest"].replace("|", "/")
    rows.append("| `%s` | %s | %s | %s | %s |\n" % (name, m["breaks_property"], needs, ", ".join(m["caught_by"]) or "—", ", ".join(m["missed_by"]) or "—"))
s = s[:j] + "".join(rows) + s[k:]
open(p, "w").write(s)
print(len(rows), "rows")
