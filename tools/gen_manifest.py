#!/usr/bin/env python3
"""Regenerates /verif/MANIFEST.json from the table below and validates it."""
import json, os, subprocess, sys
HERE = os.path.dirname(os.path.dirname(os.path.abspath(__file__)))

# id -> (technique, level text, level note, design ref)
CHECKS = {
 "C18": ("generated programs and write histories against a stream oracle, with the real fd 1 captured: enumerated store-form snippets + proptest programs/histories with shrinking, three execution modes",
         "The worker's standard output is redirected to an in-memory file; hand-assembled snippets for every store form (incl. LD (nn),SP and PUSH onto 0xFF03) x bit-7 combinations x data values, generated programs with extra serial fragments and transmitting interrupt handlers, the cache-pressure program, and direct write histories are run instruction-stepped, block-stepped (interpreter) and block-stepped (jit); the captured bytes must equal exactly the SB value at each SC write with bit 7 set, in the order of the machine's bus writes, and the modes must agree.",
         "the expected stream is computed from the machine's own ordered bus-write trace (hook); loader messages are outside (machines are built with Core::from_rom_file)", "DESIGN.md §5 C18"),
 "C09": ("model-based lock-step testing of delivered clocks against a reference CPU/interrupt model over proptest-generated programs in three stepping modes, with shrinking",
         "Generated structured programs run instruction-stepped (interpreter build), block-stepped (interpreter build) and block-stepped (jit build) in lock-step with the reference machine; after every step the clocks delivered at the MemoryAreas boundary must equal 4 x the machine cycles the reference CPU consumed (+5 carried from a dispatch, exactly 4 when suspended, never less than 4), every device must be where the twin that received the reference's clocks is, the interrupt check must follow the catch-up, and last_block_cycle_length must match; run_frame() from the end point must return within two frames plus one block.",
         "trusted: models::sm83 cycle counts, models::irq; twin bus/devices from the repository; runs end at undefined opcodes / the HALT quirk (counted); non-returning run_frame is reported via SIGALRM", "DESIGN.md §5 C09"),
 "C03": ("stateful differential testing (warm cache / cold cache / interpreter) over proptest operation histories with shrinking",
         "Generated histories of block executions, guest bank switches through bank-0 trampolines, host bank-register writes, switch-backs and fall-through into the switchable bank run on multi-bank MBC1/MBC3 ROMs whose banks hold different code at the same slot addresses; the jit build with its persistent cache, the jit build with an empty cache before every step and the interpreter build must agree on all scalars and the whole memory after every step.",
         "interpreter build is the reference; self-switching blocks in the switchable region (known finding of C01) are excluded by construction / counted; translation-heavy, so half of the shards take part", "DESIGN.md §5 C03"),
 "C04": ("differential testing jit on/off over proptest-generated structured programs with shrinking, per-step state and bus-write comparison",
         "Structured multi-block programs (loops, calls, conditional returns, interrupt handlers, timer/LCD interrupts, HALT/STOP, OAM DMA, RAM code, far calls into banks with different code, serial writes, fall-through into the switchable bank) are assembled and run block by block on a jit build and an interpreter build; all CPU/device scalars and the ordered bus writes are compared after every step, the whole memory, frame buffers and serial log every 64 steps and at the end.",
         "interpreter build is the reference; runs end where the interpreter refuses an instruction; the C01 known-finding class is excluded and counted; translation-heavy, so half of the shards take part", "DESIGN.md §5 C04, appendix A"),
 "C20": ("exhaustive enumeration + proptest against a reference grammar and a round-trip/tiling relation: all addresses in all notations, generated Unicode lines, generated instruction sequences with shrinking",
         "All 65536 addresses in seven notations, bare and inside break/p/print lines with generated case and Unicode padding, must parse to exactly their value; enumerated and generated malformed or out-of-range numerals must be rejected; arbitrary Unicode and structured lines must be handled without panicking and agree with the reference grammar; byte sequences composed of complete instructions (any first byte, any base incl. wrap) must be tiled exactly by disassemble()'s rendered output and agree with decoder::decode and the published length table.",
         "trusted: the reference grammar in c20.rs and models::sm83::LENGTHS; gray zone (leading +, 0X prefix, non-ASCII digits and case folding, extra tokens, unknown first words) accepts either outcome", "DESIGN.md §5 C20"),
 "C15": ("model-based testing against a reference frame renderer + metamorphic batching invariance: proptest-generated frames with shrinking",
         "Generated VRAM (three styles), OAM (up to 40 objects biased to edges, shared lines, equal X), scroll, window, palette and LCDC values are held constant while the machine runs one whole frame in 4-clock batches and in generated larger batches; the buffer presented at VBlank must equal models::ppu's composition pixel for pixel, and both runs must agree.",
         "trusted: models::ppu with the stated selection/priority semantics; LCD and BG enabled; mid-frame register effects and DMG window glitches out of scope", "DESIGN.md §5 C15"),
 "C16": ("model-based testing against a per-machine-cycle DMA model on a twin bus + metamorphic batching invariance: exhaustive over source pages and completion instants, proptest histories with shrinking",
         "All 256 source pages are transferred in one and in split batches, with a source byte changed after k machine cycles for k around 0, 79 and 158-161; generated histories of start/advance/write operations (writes biased around the copy position, onto bank registers, OAM and 0xFF46) are compared after every operation with models::dma driving a twin machine (OAM and the whole remaining state), and every advance is re-delivered in pieces to a third instance.",
         "trusted: models::dma; memory behind the bus is the repository's on both sides; OAM bytes copied from live I/O registers and frame buffers are not compared", "DESIGN.md §5 C16"),
 "C17": ("exhaustive enumeration of the joypad transition relation against a matrix model + proptest histories through the bus",
         "All 256 button states x 4 selections x 20 single actions are reached through the public API on the Joypad device and through the bus (0xFF00, catch-up, IF bit 4); P1 bits 0-5, the interrupt request and its being reported once are compared with models::joypad. Complete for the transition relation; generated histories add several actions between catch-ups and arbitrary P1 bytes.",
         "trusted: models::joypad; P1 bits 6-7 not compared", "DESIGN.md §5 C17"),
 "C14": ("model-based testing against a closed-form LCD schedule + metamorphic batching invariance: exhaustive 4-clock walk over two frames per enable mask/LYC, proptest histories with shrinking",
         "For all 16 STAT enable masks x 7 LYC values two frames are delivered 4 clocks at a time and LY, mode, coincidence bit, VBlank and STAT requests of every slot are compared with models::lcd; generated histories of STAT/LYC writes and advances (4 to 200000 clocks, biased to line/mode/frame boundaries) are run on the VideoState device and through the bus, with every advance re-delivered in pieces to a second instance that must observe the same.",
         "trusted: models::lcd; STAT requests caused by register writes are not asserted; STAT-line blocking not modelled; batches are multiples of 4", "DESIGN.md §5 C14"),
 "C13": ("model-based testing against a per-clock reference timer + metamorphic batching invariance: proptest operation histories with shrinking, exhaustive TAC-rewrite relation",
         "Generated histories of DIV/TIMA/TMA/TAC writes and time advances (1 to 200000 clocks, biased to period edges) run on the Timer device and through the bus; DIV, TIMA, TMA, TAC and the interrupt request of every operation are compared with models::timer, and every advance is re-executed split at generated cut points on a second instance that must observe the same. The TAC-rewrite glitch relation is enumerated over all 8x8 TAC pairs x 2048 divider phases.",
         "trusted: models::timer; the DIV-write edge is set-valued (not named by the property)", "DESIGN.md §5 C13"),
 "C08": ("model-based lock-step testing against a reference CPU+interrupt model: exhaustive sequences up to length 5/6 over the 8-symbol alphabet + proptest sequences with shrinking",
         "All sequences up to length 5 (6 in thorough) over {EI, DI, RETI, HALT, STOP, NOP, raise IF, write IE} x initial master enable x IF/IE patterns x handler sets, and generated sequences up to length 40, run one instruction at a time through Core::update() in lock-step with models::sm83 + models::irq on a twin bus; PC, SP, registers, master-enable state, run state, IF, IE and pending dispatch cycles are compared after every step, the whole machine at the end.",
         "trusted: models::sm83 and models::irq; HALT with an enabled request already pending ends the case (excluded quirk, counted); STOP treated like HALT as the property states", "DESIGN.md §5 C08"),
 "C07": ("model-based testing against a reference interrupt-dispatch model: exhaustive IF x IE x IME x run-state x stack-pointer/PC product + proptest states with shrinking",
         "The complete IF x IE x master-enable x run-state product is combined with 64 stack pointers (pushes landing on IE, IF, bank registers, side-effect I/O registers, every region boundary) and PC sets (all 256 high/low bytes where the push can change IE/IF); Core::handle_interrupt (also reached through update, run_interp and run_code_block) is compared with models::irq driving a twin machine's bus: wake-up, IME, PC, SP as 32-bit fields, charged cycles, IF, IE, ordered bus writes and the whole machine state.",
         "trusted: models::irq; the twin machine's bus produces the side effects of the two pushes; the IF value when the low-byte push itself lands on IF is set-valued", "DESIGN.md §5 C07"),
 "C19": ("generated ROM files against an accept/reject oracle and the header tables: exhaustive per header field x file-length classes + proptest headers with shrinking, loaded through the real loader in forked workers",
         "In-memory ROM files are loaded through main::load_rom: all 256 values of the checksum, type, ROM-size and RAM-size bytes x 11 file-length classes around 0x100, 0x150 and the declared size, plus generated headers with arbitrary bytes everywhere. Accepted <=> long enough, checksum of 0x134-0x14C matches, supported type, file covers the declared size; accepted cores must have the table's ROM/RAM sizes, map banks like models::mbc, survive a full address sweep and a short run; any signal is a violation.",
         "trusted: the header tables in harness rom.rs, models::mbc; unknown size codes and over-long files are gray (either outcome, no crash)", "DESIGN.md §5 C19"),
 "C10": ("model-based testing against a reference address-decode model: exhaustive write-target x probe matrix + proptest write histories with shrinking + fetch-view/data-read differential",
         "Every address W is written on several cartridges and after every single write all 65536 addresses are read back and compared with models::bus (storage independence, ROM constancy under the controller model's bank mapping, constant unmapped regions, I/O writable-bit masks); generated write histories biased to region boundaries and bank registers get the same full read-back; the interpreter's and the translator's instruction-fetch views are compared with data reads for every start address in ROM, work RAM and high RAM. The W x probe matrix is complete per cartridge; histories are sampled.",
         "trusted: models::bus and models::mbc; static device time (no clocks delivered); RAM kept enabled and MBC3 RTC selections excluded by construction; initial contents captured, not asserted", "DESIGN.md §5 C10"),
 "C11": ("generated-input crash search: exhaustive address x access-kind sweeps over all header configurations and banking states in forked workers + proptest write histories",
         "All 504 supported header combinations (7 types x 12 ROM-size codes x 6 RAM-size codes) are loaded from in-memory files; for each, banking-register states at every mask edge x all 65536 addresses x byte/word read/write through the four extern bus helpers, OAM DMA from all 256 pages and the instruction-fetch view, plus generated write histories followed by full read sweeps. Oracle: the worker survives (no signal, abort or panic) in a build with overflow checks on. Quick rotates a third of the banking states per configuration; thorough runs the full product.",
         "only crash-freedom is decided here (values are C10/C12); Core::with_code_block test cores are out of scope", "DESIGN.md §5 C11"),
 "C12": ("model-based testing against a reference MBC register model: exhaustive register-value product per configuration + proptest write histories with shrinking",
         "For each supported type x ROM size x RAM size, ROM banks and RAM banks are stamped with their own index; the full product of controller register values and generated histories of (address<0x8000, value) writes biased to range edges are applied, and after every write the bank visible at 0x0000, 0x4000-0x7FFF and 0xA000-0xBFFF is compared with models::mbc.",
         "trusted: models::mbc (set-valued where documentation differs: MBC1 mode-1 upper bits at 0x4000); RAM enable not asserted", "DESIGN.md §5 C12"),
 "C01": ("differential testing jit vs interpreter: exhaustive operand enumeration per encoding + all-pointer sweeps + proptest-generated blocks with shrinking",
         "Two identical ROM-file cores inside the jit build; one runs interpreter::run_code_block, the other translate_code_block + call. Layer 1 sweeps every register-only encoding over its complete operand/flag space (translated once, called ~10^8 times), layer 2 sweeps the pointer register of every memory-accessing encoding over the address space (all region boundaries, I/O, bank registers; all 65536 values in thorough), layer 3 generates straight-line blocks with every terminator and placement class and shrinks failures. Compared: all registers as 32-bit fields, status class, ordered bus-write trace, complete memory/device state; a dead worker process is a violation.",
         "interpreter is the oracle (pinned by C05/C06); fixed cartridge (MBC1, 8 banks, 32 KiB RAM); multi-instruction contexts are sampled, not exhausted; host-register preservation is only observed through process survival", "DESIGN.md §5 C01"),
 "C02": ("differential testing jit vs interpreter on the cycle counter: exhaustive over encodings x flags + proptest-generated blocks",
         "Every defined encoding as a block x 16 flag states x initial cycles {0,5} x 3 operand variants (both outcomes of every conditional), then sums over generated multi-instruction blocks; Registers.cycles after the translated block must equal the interpreter's. Complete for single instructions, sampled for sums.",
         "interpreter cycle counts are the oracle (pinned to the published table by C06)", "DESIGN.md §5 C02"),
 "C06": ("exhaustive enumeration of encodings x flags x PC/SP boundary sets, differential against an independent reference SM83 model",
         "All 512 encodings x 16 flag states x 22 PC placements (every fetch region, its first and last bytes, instructions crossing a region end, wrap) x 30 SP values for stack instructions x all 256 JR displacements x 256 absolute targets are executed by the interpreter and by the reference CPU running on a twin machine's bus; PC, SP, ordered stack writes, machine cycles, block-end flag, status and decoder length are compared; the 11 undefined opcodes must decode as invalid and be refused without side effects. Complete for the enumerated product.",
         "trusted: models::sm83 incl. literal copies of the published length and cycle tables (cross-checked against its own step function); PC/SP sets are boundary-complete, not all 2^16 values", "DESIGN.md §5 C06"),
 "C05": ("exhaustive enumeration + generated operands, differential against an independent reference SM83 model",
         "Every data opcode is executed by the interpreter and by an independent bit-field-decoded reference CPU over the complete 8-bit operand/flag spaces, all 16-bit operands for INC/DEC/POP/PUSH/pointer forms and all SP x e8 pairs; ADD HL,rr on a boundary lattice plus 2^21 generated pairs per register (all 2^32 in the thorough tier). Exhaustive for the finite parts, sampled for ADD HL in quick.",
         "trusted: models::sm83 (unit-tested against published tables and BCD identities); cartridge fixed to MBC1+32KiB RAM", "DESIGN.md §5 C05"),
}

# layers added later (appended to the level text)
EXTRA = {
 "C01": " Layer 7: control transfers whose target is the fall-through address, the instruction itself, the block start or the bank boundary (all flag states, pending 0 and 5, three placements). Layer 5: C03's restart probe (translation area filled to every level, then the largest block and bank 1 at the address whose bank-2 block made the area restart) through the emulator's own dispatch, compared with the interpreter build.",
 "C03": " Restart probe: the translation area is filled to every level from 4 MiB to 7.9 MiB with blocks of chosen length, then a whole bank of DAA (the longest translation) is entered, and bank 1 is executed at the address whose bank-2 block made the area restart; jit and interpreter builds must agree on registers, cycles and serial bytes.",
 "C19": " History independence: the same valid file is loaded 300 times (5000 thorough) in one process under a lowered descriptor limit and must be accepted every time, with no descriptor left open.",
 "C20": " Listings of 0xFFF0 to 0x30005 bytes get the same tiling check.",
 "C02": " Target coincidences: every control transfer with its target equal to the fall-through address, itself, the block start or the bank boundary, all flag states, pending 0 and 5, three placements. Through the emulator's own dispatch: the bank-switching cache-pressure program (blocks of different length per bank) is block-stepped on the jit and interpreter builds and last_block_cycle_length must agree after every block while the translation area restarts; C03's restart probe is judged on the cycle counts.",
 "C05": " Every instruction with operand bytes is also placed across the ends of ROM bank 0, the switchable bank and work-RAM bank 0 and in the switchable bank under 9 bank-register values (incl. values that wrap to banks 0/1), the other banks holding complemented bytes.",
 "C06": " All encodings are also executed from the switchable bank and the end of bank 0 under bank-register values 2, 5, 0x1F, 8, 0x10, 0 with complemented bytes in the other banks.",
 "C07": " Fifth pass: with the timer armed or LYC = LY, the high-byte push lands on TAC / STAT / LYC (all 256 PC high bytes) and the source taken must be the highest-priority one pending after it. Fourth pass: after a dispatch the handler's first step (update(), interpreter block, translated block) must deliver 4 x (5 + its instructions' machine cycles) clocks to the devices.",
 "C08": " Generated sequences also contain STOP with an arbitrary second byte and start from generated stack pointers, including those where a dispatch cancels itself.",
 "C11": " Files of 16 lengths around the declared size go through the loader main() uses; for whatever it accepts, every bank is selected and read across its whole window. Device-register histories: generated stores to 0xFF00-0xFF7F / 0xFFFF interleaved with time, then every listed register written with a value set.",
 "C12": " Executed view: after every write of generated histories the interpreter build and the jit build (cache kept warm) execute LD BC,nn at 0x3FFE and LD B,n at 0x3FFF, whose operand byte at 0x4000 must be the visible bank's stamp; across a restart of the translation area (C03's restart probe) the code that runs under bank 1 must be bank 1's.",
 "C13": " Program layer: generated programs on a whole core in three stepping modes; models::timer, fed with the reference machine's bus writes and clocks per step, must agree with DIV/TIMA/TMA/TAC/IF bit 2 after every step. Batches go up to 2 000 000 clocks (closed-form reference for long ones).",
 "C14": " Third level: the bus level with TIMA overflowing every 16 clocks, so that LCD events share their catch-up batch with a timer request (walk and generated histories). Program layer: generated programs on a whole core in three stepping modes; LY, STAT and IF bits 0-1 must follow models::lcd at the delivered total after every step (with DMA, HALT and STOP in the programs). Batches go up to 2 000 000 clocks (28 frames).",
 "C15": " Whole-core layer: the scene is built by a guest program (direct stores or OAM DMA) in three stepping modes; two frames later the presented buffer must be the reference composition. Earlier frames may rewrite the tile data during the vertical blank.",
 "C16": " Program layer: DMA left running under register code, long blocks, HALT and STOP on a whole core in three stepping modes; all 160 OAM bytes must match the byte-per-machine-cycle model after every step.",
 "C17": " Program layer: generated programs with injected button events on a whole core; P1 and IF bit 4 must follow models::joypad after every step (the request survives the dispatch of other sources).",
 "C18": " In every stepping mode the captured stream must also equal the stream of the reference CPU running the same program; a bank-switching cache-pressure program whose banks transmit their own byte, and C03's restart probe judged on the stream.",
}

def hooks_commits():
    out = subprocess.run(["git","-C","/repo","log","--format=%h %s"],capture_output=True,text=True).stdout
    return [l.split()[0] for l in out.splitlines() if "verif hook" in l]

props = [json.loads(l) for l in open(os.path.join(HERE,"properties.jsonl"))]
checks = []
na = []
for p in props:
    pid = p["id"]
    if pid in CHECKS:
        tech, text, note, ref = CHECKS[pid]
        text = text + EXTRA.get(pid, "")
        checks.append({
            "property_id": pid,
            "quick_cmd": f"./check {pid} quick",
            "thorough_cmd": f"./check {pid} thorough",
            "evidence_file": f"/verif/evidence/{pid}.json",
            "replay_cmd_template": f"./check {pid} --replay {{path}}",
            "engine": "gbcheck",
            "level_claimed": {"category": "exploration", "text": text, "design_ref": ref},
            "level_note": note,
            "technique": tech,
        })
    else:
        na.append({"property_id": pid, "reason": "check not built yet (work in progress; the design in DESIGN.md §5 covers it with generated-input search)"})
m = {
 "version": 1,
 "setup_cmd": "./check --build-only",
 "hooks": {
   "guard": "--cfg gb_dynarec_verif",
   "enable": "harness/.cargo/config.toml passes --cfg gb_dynarec_verif in rustflags; harness/gbjit and harness/gbint compile /repo/src/main.rs as a library ([lib] path) with and without the jit feature",
   "baseline_off_cmd": "cd /repo && cargo test --offline --no-fail-fast",
   "source_commits": hooks_commits(),
   "add_only": True,
 },
 "engines": [{"name": "gbcheck", "path": "harness/gbcheck", "serves_properties": sorted(CHECKS), "kind_free_text": "Rust binary: sharded forked workers, exhaustive enumerators, proptest-driven generators with shrinking, reference models (harness/models), replay and evidence writers"}],
 "checks": checks,
 "not_applicable": na,
 "notes": "Exit codes: 0 held, 1 violation, 2 inconclusive (build failure, watchdog, generator did not reach a required class). VERIF_SEED selects the PRNG stream; VERIF_JOBS the number of worker processes (default: cores, max 16).",
}
json.dump(m, open(os.path.join(HERE,"MANIFEST.json"),"w"), indent=1)
try:
    import jsonschema
    jsonschema.validate(m, json.load(open("/root/.vp/MANIFEST.schema.json")))
    print("MANIFEST.json valid;", len(checks), "checks,", len(na), "not claimed")
except ImportError:
    print("jsonschema not available; skipped validation")
