#!/bin/bash
# tools/run_on_worktree.sh <worktree-with-change-applied> <ids…>
# Runs the quick checks against a scratch git worktree instead of /repo, from a scratch
# copy of /verif under /tmp/vw (harness lib paths rewritten), so /repo stays untouched
# while something else is using it.  Used only for evaluating seeded changes.
set -u
WT="$(readlink -f "$1")"; shift
VW="${VW:-/tmp/vw}"
SRC="$(cd "$(dirname "${BASH_SOURCE[0]}")/.." && pwd)"
mkdir -p "$VW"
rsync -a --delete --exclude target --exclude .work --exclude replays --exclude evidence --exclude .git \
  --exclude 'harness/fuzz/corpus' --exclude 'harness/fuzz/artifacts' "$SRC/" "$VW/"
sed -i "s#/repo/src/main.rs#$WT/src/main.rs#" "$VW/harness/gbjit/Cargo.toml" "$VW/harness/gbint/Cargo.toml"
rc_all=0
for id in "$@"; do
  out=$(cd "$VW" && GB_REPO="$WT" VERIF_FUZZ=0 ./check "$id" quick 2>&1 | grep -a -E "VIOLATION|INCONCL|KNOWN|quick:" | cut -c1-400 | head -6)
  echo "[$id] $out"
done
rm -rf "$VW/replays" "$VW/evidence"
