#!/usr/bin/env python3
"""usage: save_seeded.py <name> <property> <srcdir> <demo filter> <jit|nojit> <needs> <caught_by comma list> <missed_by comma list> [note]"""
import json, os, shutil, sys
name, prop, src, flt, jit, needs, caught, missed = sys.argv[1:9]
note = sys.argv[9] if len(sys.argv) > 9 else ""
d = f"/verif/seeded/{name}"
os.makedirs(d, exist_ok=True)
for f in ("patch.diff", "demo.diff", "README.md"):
    shutil.copy(os.path.join(src, f), os.path.join(d, f))
feat = "--features jit " if jit == "jit" else ""
meta = {
    "breaks_property": prop,
    "origin": "written by a fresh sub-agent that saw only the property text and a scratch worktree of /repo",
    "needs_to_manifest": needs,
    "verified_here": [
        "git apply patch.diff in a scratch worktree of /repo HEAD",
        "cargo build --offline and cargo build --offline --features jit: both succeed",
        "cargo test --offline: 98 passed",
        f"git apply demo.diff; cargo test --offline {feat}{flt}: FAILS with the change, passes with patch.diff reverted",
        "tools/run_on_patch.sh patch.diff <checks>: see caught_by / missed_by (quick tier)",
    ],
    "caught_by": [c for c in caught.split(",") if c],
    "missed_by": [c for c in missed.split(",") if c],
    "note": note,
}
json.dump(meta, open(os.path.join(d, "meta.json"), "w"), indent=1)
print("saved", d)
