#!/bin/bash
# usage: tools/verify_seeded.sh <srcdir with patch.diff/demo.diff> <worktree> <demo test filter> [jit]
# Re-verifies an independently written change: applies, builds with and without jit,
# 98 tests pass, its demonstration fails with the change and passes without.
set -u
SRC="$1"; WT="$2"; FILTER="$3"; JIT="${4:-}"
FEAT=""; [ "$JIT" = "jit" ] && FEAT="--features jit"
cd "$WT" || exit 2
git checkout -q -- . && git clean -fdq src
git apply "$SRC/patch.diff" || { echo "patch does not apply"; exit 2; }
b1=$(cargo build --offline 2>&1 | tail -1)
b2=$(cargo build --offline --features jit 2>&1 | tail -1)
t=$(cargo test --offline 2>&1 | grep "test result" | head -1)
git apply "$SRC/demo.diff" || { echo "demo does not apply"; exit 2; }
with=$(cargo test --offline $FEAT "$FILTER" 2>&1 | grep "test result" | head -1)
git apply -R "$SRC/patch.diff"
without=$(cargo test --offline $FEAT "$FILTER" 2>&1 | grep "test result" | head -1)
git checkout -q -- . && git clean -fdq src
echo "build: $b1 | jit build: $b2"
echo "suite with change: $t"
echo "demo with change:    $with"
echo "demo without change: $without"
