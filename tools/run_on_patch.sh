#!/bin/bash
# usage: tools/run_on_patch.sh <patch.diff> <Cxx> [<Cyy> ...]
# Applies a seeded change to /repo, runs the named checks (quick tier, or the
# tier in VERIF_TIER) against it, undoes the change, and prints one line per check.
# Replays written by these runs go to a scratch directory, not to /verif/replays.
set -u
PATCH="$(readlink -f "$1")"; shift
cd /verif
git -C /repo diff --quiet || { echo "/repo has uncommitted changes; refusing"; exit 2; }
git -C /repo apply "$PATCH" || { echo "patch does not apply"; exit 2; }
trap 'git -C /repo checkout -- . ; git -C /repo clean -fdq src' EXIT
for c in "$@"; do
  out=$(./check "$c" "${VERIF_TIER:-quick}" 2>&1)
  rc=$?
  nv=$(echo "$out" | grep -c '^VIOLATION')
  first=$(echo "$out" | grep -A1 '^VIOLATION' | sed -n 2p | cut -c1-220)
  echo "$c exit=$rc violations=$nv $first"
  echo "$out" | grep -E "INCONCLUSIVE" | head -3
  rm -rf "/verif/replays/$c"
done
