//! Reference model of SM83 interrupt dispatch (IF/IE/IME, HALT/STOP wake-up),
//! written from the CPU documentation (Pan Docs "Interrupts", mooneye ie_push).

#[derive(Clone, Copy, Debug, PartialEq, Eq)]
pub enum Ime {
    Disabled,
    Enabled,
    /// EI executed, takes effect after the following instruction
    EnableNext,
}

#[derive(Clone, Copy, Debug, PartialEq, Eq)]
pub enum Run {
    Run,
    Stop,
    Halt,
}

#[derive(Clone, Copy, Debug, PartialEq, Eq)]
pub struct IrqCpu {
    pub pc: u16,
    pub sp: u16,
    pub ime: Ime,
    pub run: Run,
    /// machine cycles charged by dispatches
    pub cycles: u32,
}

/// The bus as the dispatch sequence sees it.
pub trait IrqBus {
    fn write(&mut self, addr: u16, value: u8);
    /// IF & IE & 0x1F, sampled now
    fn pending(&mut self) -> u8;
    /// clear one bit of IF (interrupt acknowledge)
    fn ack(&mut self, bit: u8);
}

#[derive(Clone, Debug, PartialEq, Eq)]
pub enum Outcome {
    /// nothing pending: no change at all
    Nothing,
    /// pending but master enable off: only HALT/STOP is left
    Woke,
    /// dispatched; `ack` = IF bit cleared (0 when the push cancelled every source)
    Dispatched { vector: u16, ack: u8, pushes: [(u16, u8); 2] },
}

pub fn vector_for(pending: u8) -> (u16, u8) {
    for bit in 0..5 {
        if pending & (1 << bit) != 0 {
            return (0x40 + 8 * bit as u16, 1 << bit);
        }
    }
    (0x0000, 0)
}

/// One interrupt check, as performed between instructions.
pub fn dispatch(cpu: &mut IrqCpu, bus: &mut dyn IrqBus) -> Outcome {
    let pending = bus.pending();
    if pending == 0 {
        return Outcome::Nothing;
    }
    cpu.run = Run::Run;
    if cpu.ime != Ime::Enabled {
        return Outcome::Woke;
    }
    cpu.ime = Ime::Disabled;
    let hi = (cpu.pc >> 8) as u8;
    let lo = cpu.pc as u8;
    cpu.sp = cpu.sp.wrapping_sub(1);
    let a_hi = cpu.sp;
    bus.write(a_hi, hi);
    // the source is chosen after the high byte has been pushed (the push may
    // have landed on IE or IF) and before the low byte is
    let pending = bus.pending();
    cpu.sp = cpu.sp.wrapping_sub(1);
    let a_lo = cpu.sp;
    bus.write(a_lo, lo);
    let (vector, ack) = vector_for(pending);
    if ack != 0 {
        bus.ack(ack);
    }
    cpu.pc = vector;
    cpu.cycles += 5;
    Outcome::Dispatched { vector, ack, pushes: [(a_hi, hi), (a_lo, lo)] }
}

#[cfg(test)]
mod tests {
    use super::*;

    struct Flat {
        mem: Vec<u8>,
    }
    impl IrqBus for Flat {
        fn write(&mut self, addr: u16, value: u8) {
            self.mem[addr as usize] = if addr == 0xff0f { value & 0x1f } else { value };
        }
        fn pending(&mut self) -> u8 {
            self.mem[0xff0f] & self.mem[0xffff] & 0x1f
        }
        fn ack(&mut self, bit: u8) {
            self.mem[0xff0f] &= !bit;
        }
    }

    fn flat(if_: u8, ie: u8) -> Flat {
        let mut mem = vec![0u8; 0x10000];
        mem[0xff0f] = if_;
        mem[0xffff] = ie;
        Flat { mem }
    }

    #[test]
    fn priority_and_ack() {
        let mut b = flat(0x16, 0x1f);
        let mut c = IrqCpu { pc: 0x1234, sp: 0xd000, ime: Ime::Enabled, run: Run::Halt, cycles: 0 };
        let o = dispatch(&mut c, &mut b);
        assert_eq!(o, Outcome::Dispatched { vector: 0x48, ack: 2, pushes: [(0xcfff, 0x12), (0xcffe, 0x34)] });
        assert_eq!((c.pc, c.sp, c.ime, c.run, c.cycles), (0x48, 0xcffe, Ime::Disabled, Run::Run, 5));
        assert_eq!(b.mem[0xff0f], 0x14);
    }

    #[test]
    fn masked_and_disabled() {
        let mut b = flat(0x01, 0x02);
        let mut c = IrqCpu { pc: 0x100, sp: 0xd000, ime: Ime::Enabled, run: Run::Halt, cycles: 0 };
        assert_eq!(dispatch(&mut c, &mut b), Outcome::Nothing);
        assert_eq!(c.run, Run::Halt);
        let mut b = flat(0x01, 0x01);
        let mut c = IrqCpu { pc: 0x100, sp: 0xd000, ime: Ime::EnableNext, run: Run::Stop, cycles: 0 };
        assert_eq!(dispatch(&mut c, &mut b), Outcome::Woke);
        assert_eq!((c.run, c.ime, c.pc, c.sp), (Run::Run, Ime::EnableNext, 0x100, 0xd000));
    }

    #[test]
    fn ie_push_cancel() {
        // mooneye ie_push: SP = 0x0000, the high byte of PC lands on IE
        let mut b = flat(0x04, 0x04);
        let mut c = IrqCpu { pc: 0x0200, sp: 0x0000, ime: Ime::Enabled, run: Run::Run, cycles: 0 };
        let o = dispatch(&mut c, &mut b);
        // IE := 0x02 -> timer no longer enabled -> cancelled, PC = 0, IF untouched
        assert_eq!(o, Outcome::Dispatched { vector: 0, ack: 0, pushes: [(0xffff, 0x02), (0xfffe, 0x00)] });
        assert_eq!(b.mem[0xff0f], 0x04);
        assert_eq!(c.pc, 0);
        // low byte on IE (SP = 1) is too late to cancel
        let mut b = flat(0x04, 0x04);
        let mut c = IrqCpu { pc: 0x0200, sp: 0x0001, ime: Ime::Enabled, run: Run::Run, cycles: 0 };
        let o = dispatch(&mut c, &mut b);
        assert_eq!(o, Outcome::Dispatched { vector: 0x50, ack: 4, pushes: [(0x0000, 0x02), (0xffff, 0x00)] });
    }
}
