//! Reference model of OAM DMA, one byte per machine cycle, written from the
//! DMA documentation: a write of XX to 0xFF46 starts (or restarts) a transfer
//! of the 160 bytes XX00-XX9F to 0xFE00-0xFE9F in ascending order; each byte is
//! read through the memory map at the moment it is copied.

use crate::sm83::Bus;

#[derive(Clone, Copy, Debug, PartialEq, Eq, Default)]
pub struct Dma {
    /// (source page, next offset) while a transfer is running
    pub active: Option<(u8, u8)>,
}

impl Dma {
    pub fn start(&mut self, page: u8) {
        self.active = Some((page, 0));
    }
    /// one machine cycle; returns the (source, destination) of the byte copied, if any
    pub fn cycle<B: Bus>(&mut self, bus: &mut B) -> Option<(u16, u16)> {
        let (page, off) = self.active?;
        let src = (page as u16) << 8 | off as u16;
        let dst = 0xfe00 | off as u16;
        let v = bus.read(src);
        bus.write(dst, v);
        self.active = if off == 0x9f { None } else { Some((page, off + 1)) };
        Some((src, dst))
    }
}

#[cfg(test)]
mod tests {
    use super::*;
    use crate::sm83::FlatBus;

    #[test]
    fn copies_160_bytes_one_per_cycle() {
        let mut bus = FlatBus::new();
        for i in 0..256usize {
            bus.mem[0xc100 + i] = i as u8 ^ 0x5a;
        }
        let mut d = Dma::default();
        d.start(0xc1);
        for k in 0..159 {
            assert_eq!(d.cycle(&mut bus), Some((0xc100 + k, 0xfe00 + k)));
        }
        assert!(d.active.is_some());
        bus.mem[0xc19f] = 0x77; // changed before cycle 160: still lands
        assert_eq!(d.cycle(&mut bus), Some((0xc19f, 0xfe9f)));
        assert_eq!(d.active, None);
        assert_eq!(d.cycle(&mut bus), None);
        assert_eq!(bus.mem[0xfe9f], 0x77);
        assert_eq!(bus.mem[0xfea0], 0);
        assert_eq!(bus.mem[0xfe00], 0x5a);
    }
}
