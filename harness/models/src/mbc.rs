//! Reference model of the cartridge bank controllers the emulator supports
//! (ROM-only, MBC1, MBC3), written from the controller documentation. Where
//! the documentation (or the property) leaves a choice, the model is set-valued.

#[derive(Clone, Copy, Debug, PartialEq, Eq)]
pub enum Kind {
    RomOnly,
    Mbc1,
    Mbc3,
}

pub fn kind_for_type(cart_type: u8) -> Option<Kind> {
    match cart_type {
        0x00 => Some(Kind::RomOnly),
        0x01 | 0x02 | 0x03 => Some(Kind::Mbc1),
        0x11 | 0x12 | 0x13 => Some(Kind::Mbc3),
        _ => None,
    }
}

#[derive(Clone, Debug)]
pub struct Mbc {
    pub kind: Kind,
    pub rom_banks: usize,
    pub ram_bytes: usize,
    pub ram_enable: bool,
    /// value last written to 0x2000-0x3FFF, masked to the register width
    pub rom_low: u8,
    /// value last written to 0x4000-0x5FFF (MBC1: 2 bits; MBC3: raw value)
    pub upper: u8,
    /// MBC1 mode select (0x6000-0x7FFF bit 0)
    pub mode: bool,
    /// MBC3: the last write to 0x4000-0x5FFF did not select a RAM bank (RTC register or undefined)
    pub mbc3_non_ram: bool,
}

impl Mbc {
    pub fn new(kind: Kind, rom_banks: usize, ram_bytes: usize) -> Mbc {
        Mbc { kind, rom_banks, ram_bytes, ram_enable: false, rom_low: 1, upper: 0, mode: false, mbc3_non_ram: false }
    }

    pub fn write(&mut self, addr: u16, value: u8) {
        match self.kind {
            Kind::RomOnly => {}
            Kind::Mbc1 => match addr {
                0x0000..=0x1fff => self.ram_enable = value & 0x0f == 0x0a,
                0x2000..=0x3fff => self.rom_low = value & 0x1f,
                0x4000..=0x5fff => self.upper = value & 0x03,
                0x6000..=0x7fff => self.mode = value & 1 == 1,
                _ => {}
            },
            Kind::Mbc3 => match addr {
                0x0000..=0x1fff => self.ram_enable = value & 0x0f == 0x0a,
                0x2000..=0x3fff => self.rom_low = value & 0x7f,
                0x4000..=0x5fff => {
                    if value < 4 {
                        self.upper = value;
                        self.mbc3_non_ram = false;
                    } else {
                        self.mbc3_non_ram = true;
                    }
                }
                _ => {}
            },
        }
    }

    fn reduce_rom(&self, bank: usize) -> usize {
        if self.rom_banks == 0 {
            0
        } else {
            bank % self.rom_banks
        }
    }

    /// Like `rom_bank_high` but before reduction to the ROM size.
    pub fn rom_bank_high_raw(&self) -> Vec<usize> {
        let mut big = self.clone();
        big.rom_banks = 1 << 20;
        big.rom_bank_high()
    }

    /// Banks that may legitimately be visible at 0x4000-0x7FFF.
    pub fn rom_bank_high(&self) -> Vec<usize> {
        match self.kind {
            Kind::RomOnly => vec![self.reduce_rom(1)],
            Kind::Mbc1 => {
                // bank-number register: 5 bits, 0 reads as 1 (the translation applies
                // to the 5-bit register, before the upper bits are combined)
                let low = if self.rom_low == 0 { 1 } else { self.rom_low as usize };
                let with_upper = self.reduce_rom((self.upper as usize) << 5 | low);
                if self.mode {
                    // Mode 1: current documentation keeps the upper bits applied to
                    // 0x4000-0x7FFF, older documentation routes them to RAM only.
                    let mut v = vec![with_upper];
                    let without = self.reduce_rom(low);
                    if without != with_upper {
                        v.push(without);
                    }
                    v
                } else {
                    vec![with_upper]
                }
            }
            Kind::Mbc3 => {
                let low = if self.rom_low == 0 { 1 } else { self.rom_low as usize };
                vec![self.reduce_rom(low)]
            }
        }
    }

    /// RAM bank visible at 0xA000-0xBFFF, or None where nothing is asserted
    /// (no RAM, RAM smaller than a bank, MBC3 RTC register selected).
    pub fn ram_bank(&self) -> Option<usize> {
        let banks = self.ram_bytes / 0x2000;
        if banks == 0 {
            return None;
        }
        match self.kind {
            Kind::RomOnly => Some(0),
            Kind::Mbc1 => Some(if self.mode { self.upper as usize % banks } else { 0 }),
            Kind::Mbc3 => {
                if self.mbc3_non_ram {
                    None
                } else {
                    Some(self.upper as usize % banks)
                }
            }
        }
    }
}

#[cfg(test)]
mod tests {
    use super::*;

    #[test]
    fn mbc1_basics() {
        let mut m = Mbc::new(Kind::Mbc1, 64, 32 * 1024);
        assert_eq!(m.rom_bank_high(), vec![1]);
        m.write(0x2000, 0);
        assert_eq!(m.rom_bank_high(), vec![1]);
        m.write(0x3fff, 0x20);
        assert_eq!(m.rom_bank_high(), vec![1]); // 0x20 & 0x1f == 0 -> 1
        m.write(0x2000, 0x1f);
        assert_eq!(m.rom_bank_high(), vec![31]);
        m.write(0x4000, 1);
        assert_eq!(m.rom_bank_high(), vec![63]);
        m.write(0x2000, 0);
        assert_eq!(m.rom_bank_high(), vec![33]); // 0x20 | 1: banks 0x20/0x40/0x60 unreachable
        assert_eq!(m.ram_bank(), Some(0));
        m.write(0x6000, 1);
        assert_eq!(m.ram_bank(), Some(1));
        assert_eq!(m.rom_bank_high(), vec![33, 1]);
        // reduction to the ROM size
        let mut s = Mbc::new(Kind::Mbc1, 8, 0);
        s.write(0x2000, 0x1f);
        assert_eq!(s.rom_bank_high(), vec![7]);
        assert_eq!(s.ram_bank(), None);
    }

    #[test]
    fn mbc3_basics() {
        let mut m = Mbc::new(Kind::Mbc3, 128, 32 * 1024);
        m.write(0x2000, 0x80);
        assert_eq!(m.rom_bank_high(), vec![1]);
        m.write(0x2000, 0x7f);
        assert_eq!(m.rom_bank_high(), vec![127]);
        m.write(0x4000, 3);
        assert_eq!(m.ram_bank(), Some(3));
        m.write(0x4000, 8);
        assert_eq!(m.ram_bank(), None);
        m.write(0x6000, 1);
        assert_eq!(m.rom_bank_high(), vec![127]);
        let mut r = Mbc::new(Kind::RomOnly, 2, 0);
        r.write(0x2000, 5);
        assert_eq!(r.rom_bank_high(), vec![1]);
    }
}
