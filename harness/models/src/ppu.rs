//! Reference frame renderer for the DMG picture unit, written from the
//! graphics documentation (tile data / tile maps / LCDC / OAM / palettes). It
//! composes a whole 160x144 frame from VRAM, OAM and register values that are
//! constant over the frame; pixel by pixel, with no pipeline and no caches.
//!
//! Output: one byte per pixel, the four shades 255, 170, 85, 0 (lightest to
//! darkest) selected through BGP / OBP0 / OBP1.

pub const SHADES: [u8; 4] = [255, 170, 85, 0];
pub const W: usize = 160;
pub const H: usize = 144;

#[derive(Clone, Copy, Debug, PartialEq, Eq, Default)]
pub struct Regs {
    pub lcdc: u8,
    pub scx: u8,
    pub scy: u8,
    pub wx: u8,
    pub wy: u8,
    pub bgp: u8,
    pub obp0: u8,
    pub obp1: u8,
}

#[derive(Clone, Copy, Debug, Default, PartialEq, Eq)]
pub struct Stats {
    pub window_pixels: u32,
    pub object_pixels: u32,
    pub bg_over_obj_pixels: u32,
    pub lines_with_more_than_ten: u32,
    pub flipped_object_pixels: u32,
    pub tall_object_pixels: u32,
    pub objects_partly_off_screen: u32,
    pub overlapping_object_pixels: u32,
}

fn shade(palette: u8, color: u8) -> u8 {
    SHADES[((palette >> (2 * color)) & 3) as usize]
}

/// colour index (0-3) of pixel (px, row) of the tile whose data starts at `addr`
fn tile_pixel(vram: &[u8], addr: usize, px: usize, row: usize) -> u8 {
    let low = vram[addr + row * 2];
    let high = vram[addr + row * 2 + 1];
    let bit = 7 - px;
    ((high >> bit) & 1) << 1 | ((low >> bit) & 1)
}

/// address (offset into VRAM) of BG/window tile `idx` under LCDC bit 4
fn bg_tile_addr(lcdc: u8, idx: u8) -> usize {
    if lcdc & 0x10 != 0 {
        idx as usize * 16
    } else {
        (0x1000i32 + (idx as i8 as i32) * 16) as usize
    }
}

struct Obj {
    y: i32,
    x: i32,
    tile: u8,
    attr: u8,
    index: usize,
}

pub fn render(vram: &[u8], oam: &[u8], r: &Regs) -> (Vec<u8>, Stats) {
    assert!(vram.len() >= 0x2000 && oam.len() >= 0xa0);
    let mut out = vec![0u8; W * H];
    let mut st = Stats::default();
    let bg_map = if r.lcdc & 0x08 != 0 { 0x1c00 } else { 0x1800 };
    let win_map = if r.lcdc & 0x40 != 0 { 0x1c00 } else { 0x1800 };
    let win_on = r.lcdc & 0x20 != 0;
    let obj_on = r.lcdc & 0x02 != 0;
    let obj_h: i32 = if r.lcdc & 0x04 != 0 { 16 } else { 8 };
    for y in 0..H {
        // objects on this line: the first ten in OAM order whose rows cover it
        let mut line_objs: Vec<Obj> = Vec::new();
        if obj_on {
            let mut candidates = 0;
            for i in 0..40 {
                let oy = oam[i * 4] as i32;
                let row = y as i32 + 16 - oy;
                if row < 0 || row >= obj_h {
                    continue;
                }
                candidates += 1;
                if line_objs.len() < 10 {
                    line_objs.push(Obj { y: oy, x: oam[i * 4 + 1] as i32, tile: oam[i * 4 + 2], attr: oam[i * 4 + 3], index: i });
                }
            }
            if candidates > 10 {
                st.lines_with_more_than_ten += 1;
            }
            // drawing priority: lower X first, then lower OAM index
            line_objs.sort_by_key(|o| (o.x, o.index));
            for o in &line_objs {
                if (o.x > 0 && o.x < 8) || (o.x > 160 && o.x < 168) || o.y < 16 && o.y + obj_h > 16 || o.y > 160 - obj_h + 8 {
                    st.objects_partly_off_screen += 1;
                }
            }
        }
        for x in 0..W {
            // background or window colour index
            let in_window = win_on && y as i32 >= r.wy as i32 && x as i32 + 7 >= r.wx as i32 && r.wx <= 166;
            let bg_color = if in_window {
                st.window_pixels += 1;
                let wx = x + 7 - r.wx as usize;
                let wy = y - r.wy as usize;
                let idx = vram[win_map + (wy / 8) * 32 + wx / 8];
                tile_pixel(vram, bg_tile_addr(r.lcdc, idx), wx & 7, wy & 7)
            } else {
                let bx = (x + r.scx as usize) & 255;
                let by = (y + r.scy as usize) & 255;
                let idx = vram[bg_map + (by / 8) * 32 + bx / 8];
                tile_pixel(vram, bg_tile_addr(r.lcdc, idx), bx & 7, by & 7)
            };
            let mut pixel = shade(r.bgp, bg_color);
            // the first non-transparent object pixel in priority order decides
            let mut seen = 0;
            for o in &line_objs {
                let px = x as i32 + 8 - o.x;
                if px < 0 || px >= 8 {
                    continue;
                }
                let mut row = y as i32 + 16 - o.y;
                if o.attr & 0x40 != 0 {
                    row = obj_h - 1 - row;
                }
                let px = if o.attr & 0x20 != 0 { 7 - px } else { px };
                let tile = if obj_h == 16 { (o.tile & 0xfe) as usize + (row as usize >> 3) } else { o.tile as usize };
                let color = tile_pixel(vram, tile * 16, px as usize, row as usize & 7);
                if color == 0 {
                    continue;
                }
                seen += 1;
                if seen > 1 {
                    continue;
                }
                if o.attr & 0x80 != 0 && bg_color != 0 {
                    st.bg_over_obj_pixels += 1;
                } else {
                    let pal = if o.attr & 0x10 != 0 { r.obp1 } else { r.obp0 };
                    pixel = shade(pal, color);
                    st.object_pixels += 1;
                    if o.attr & 0x60 != 0 {
                        st.flipped_object_pixels += 1;
                    }
                    if obj_h == 16 {
                        st.tall_object_pixels += 1;
                    }
                }
            }
            if seen > 1 {
                st.overlapping_object_pixels += 1;
            }
            out[y * W + x] = pixel;
        }
    }
    (out, st)
}

#[cfg(test)]
mod tests {
    use super::*;

    #[test]
    fn background_scroll_and_signed_tiles() {
        let mut vram = vec![0u8; 0x2000];
        let oam = vec![0u8; 0xa0];
        // tile 1 (unsigned addressing): row 0 = colours 3,2,1,0,3,2,1,0
        vram[16] = 0b1010_1010;
        vram[17] = 0b1100_1100;
        vram[0x1800] = 1;
        let r = Regs { lcdc: 0x91, bgp: 0xe4, ..Regs::default() };
        let (f, _) = render(&vram, &oam, &r);
        assert_eq!(&f[0..8], &[0, 85, 170, 255, 0, 85, 170, 255]);
        // scroll by 2: the pattern starts two pixels in
        let r2 = Regs { scx: 2, ..r };
        let (f, _) = render(&vram, &oam, &r2);
        assert_eq!(&f[0..6], &[170, 255, 0, 85, 170, 255]);
        // wrap: scrolling by 255 puts map column 31 (blank) first, then tile 1
        let r3 = Regs { scx: 255, ..r };
        let (f, _) = render(&vram, &oam, &r3);
        assert_eq!(f[0], 255);
        assert_eq!(f[1], 0);
        // signed addressing: index 1 -> 0x9010, index 0x80 -> 0x8800
        let r4 = Regs { lcdc: 0x81, bgp: 0xe4, ..Regs::default() };
        let (f, _) = render(&vram, &oam, &r4);
        assert_eq!(f[0], 255); // tile at 0x1010 is blank
        vram[0x1010] = 0xff;
        let (f, _) = render(&vram, &oam, &r4);
        assert_eq!(f[0], 170);
        assert_eq!(bg_tile_addr(0x00, 0x80), 0x0800);
        assert_eq!(bg_tile_addr(0x00, 0xff), 0x0ff0);
        assert_eq!(bg_tile_addr(0x10, 0xff), 0x0ff0);
    }

    #[test]
    fn objects_priority_and_limit() {
        let mut vram = vec![0u8; 0x2000];
        let mut oam = vec![0u8; 0xa0];
        // tile 2: solid colour 1; tile 3: solid colour 2
        for row in 0..8 {
            vram[32 + row * 2] = 0xff;
            vram[48 + row * 2 + 1] = 0xff;
        }
        // object 0 at x=20 (tile 2), object 1 at x=16 (tile 3): overlap 20..23, lower X wins
        oam[0..4].copy_from_slice(&[16, 20 + 8 - 8, 2, 0]);
        oam[4..8].copy_from_slice(&[16, 16 + 8 - 8, 3, 0x10]);
        let r = Regs { lcdc: 0x93, bgp: 0xe4, obp0: 0xe4, obp1: 0x1b, ..Regs::default() };
        let (f, st) = render(&vram, &oam, &r);
        // screen x = ox - 8: object 1 covers 8..15, object 0 covers 12..19
        assert_eq!(f[8], SHADES[((0x1bu8 >> 4) & 3) as usize]);
        assert_eq!(f[12], SHADES[((0x1bu8 >> 4) & 3) as usize]); // lower X wins
        assert_eq!(f[16], SHADES[((0xe4u8 >> 2) & 3) as usize]);
        assert!(st.overlapping_object_pixels >= 4);
        // eleven objects on a line: the eleventh is not drawn
        let mut oam = vec![0u8; 0xa0];
        for i in 0..11 {
            oam[i * 4..i * 4 + 4].copy_from_slice(&[16, 8 + 8 * i as u8, 2, 0]);
        }
        let (f, st) = render(&vram, &oam, &r);
        assert_eq!(f[79], SHADES[1]);
        assert_eq!(f[80], 255);
        assert_eq!(st.lines_with_more_than_ten, 8);
        // 8x16: bit 0 of the tile index is ignored
        let mut oam = vec![0u8; 0xa0];
        oam[0..4].copy_from_slice(&[16, 8, 3, 0]);
        let r16 = Regs { lcdc: 0x97, ..r };
        let (f, _) = render(&vram, &oam, &r16);
        assert_eq!(f[0], SHADES[1]); // rows 0-7 from tile 2
        assert_eq!(f[8 * W], SHADES[2]); // rows 8-15 from tile 3
        // BG over OBJ hides the object where the background colour is not 0
        let mut oam = vec![0u8; 0xa0];
        oam[0..4].copy_from_slice(&[16, 8, 2, 0x80]);
        vram[0x1800] = 3;
        let (f, st) = render(&vram, &oam, &r);
        assert_eq!(f[0], SHADES[2]);
        assert!(st.bg_over_obj_pixels > 0);
    }

    #[test]
    fn window_positions() {
        let mut vram = vec![0u8; 0x2000];
        let oam = vec![0u8; 0xa0];
        for row in 0..8 {
            vram[16 + row * 2] = 0xff; // tile 1 solid colour 1
        }
        for i in 0..0x400 {
            vram[0x1c00 + i] = 1; // window map full of tile 1
        }
        let r = Regs { lcdc: 0xf1, bgp: 0xe4, wx: 87, wy: 40, ..Regs::default() };
        let (f, st) = render(&vram, &oam, &r);
        assert_eq!(f[39 * W + 100], 255);
        assert_eq!(f[40 * W + 79], 255);
        assert_eq!(f[40 * W + 80], SHADES[1]);
        assert_eq!(st.window_pixels, 80 * 104);
        let (_, st) = render(&vram, &oam, &Regs { wx: 167, ..r });
        assert_eq!(st.window_pixels, 0);
        let (_, st) = render(&vram, &oam, &Regs { wx: 0, wy: 0, ..r });
        assert_eq!(st.window_pixels, 160 * 144);
    }
}
