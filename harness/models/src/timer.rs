//! Reference model of the DMG timer (DIV/TIMA/TMA/TAC), one step per clock,
//! written from the timer documentation (Pan Docs "Timer and Divider
//! Registers", "Timer obscure behaviour"): a free-running 16-bit divider, a
//! falling-edge detector on (enable AND selected divider bit), reload from TMA
//! and interrupt request on overflow.

#[derive(Clone, Copy, Debug, PartialEq, Eq)]
pub struct Timer {
    /// 16-bit system counter, incremented every clock; DIV is its upper byte
    pub div: u16,
    pub tima: u8,
    pub tma: u8,
    pub tac: u8,
}

pub fn selected_mask(tac: u8) -> u16 {
    match tac & 3 {
        0 => 1 << 9, // period 1024 clocks
        1 => 1 << 3, // 16
        2 => 1 << 5, // 64
        _ => 1 << 7, // 256
    }
}

pub fn period(tac: u8) -> u32 {
    selected_mask(tac) as u32 * 2
}

impl Timer {
    pub fn new() -> Timer {
        Timer { div: 0, tima: 0, tma: 0, tac: 0 }
    }
    pub fn signal(&self) -> bool {
        self.tac & 4 != 0 && self.div & selected_mask(self.tac) != 0
    }
    pub fn div_reg(&self) -> u8 {
        (self.div >> 8) as u8
    }
    /// TIMA increment; returns true when it overflowed (reload + interrupt request)
    pub fn increment(&mut self) -> bool {
        if self.tima == 0xff {
            self.tima = self.tma;
            true
        } else {
            self.tima += 1;
            false
        }
    }
    /// advance by `clocks`; returns (number of TIMA increments, number of overflows)
    pub fn advance(&mut self, clocks: u64) -> (u64, u64) {
        let mut incs = 0;
        let mut ovf = 0;
        for _ in 0..clocks {
            let before = self.signal();
            self.div = self.div.wrapping_add(1);
            if before && !self.signal() {
                incs += 1;
                if self.increment() {
                    ovf += 1;
                }
            }
        }
        (incs, ovf)
    }
    /// TAC write: a falling edge of the detector input increments TIMA
    /// (returns (edge happened, overflow))
    pub fn write_tac(&mut self, v: u8) -> (bool, bool) {
        let before = self.signal();
        self.tac = v;
        if before && !self.signal() {
            let o = self.increment();
            (true, o)
        } else {
            (false, false)
        }
    }
    /// DIV write: resets the divider. Returns true when the detector input was
    /// high (hardware then sees a falling edge; the property does not name it)
    pub fn write_div(&mut self) -> bool {
        let before = self.signal();
        self.div = 0;
        before
    }
}

#[cfg(test)]
mod tests {
    use super::*;

    #[test]
    fn periods_and_overflow() {
        for (tac, p) in [(4u8, 1024u64), (5, 16), (6, 64), (7, 256)] {
            let mut t = Timer::new();
            t.write_tac(tac);
            assert_eq!(t.advance(p - 1), (0, 0));
            assert_eq!(t.advance(1), (1, 0));
            assert_eq!(t.tima, 1);
            t.tma = 0xf0;
            t.tima = 0xff;
            assert_eq!(t.advance(p), (1, 1));
            assert_eq!(t.tima, 0xf0);
        }
        let mut t = Timer::new();
        t.advance(0x1234);
        assert_eq!(t.div_reg(), 0x12);
        assert_eq!(t.tima, 0);
    }

    #[test]
    fn tac_glitches() {
        // repo test vectors restated: 16-clock -> 64-clock with bit 3 high, bit 5 low
        let mut t = Timer::new();
        t.write_tac(5);
        t.div = 8;
        assert_eq!(t.write_tac(6), (true, false));
        assert_eq!(t.tima, 1);
        // disable with the selected bit high
        let mut t = Timer::new();
        t.write_tac(6);
        t.div = 0x3f;
        assert_eq!(t.write_tac(2), (true, false));
        assert_eq!(t.tima, 1);
        // no glitch when the newly selected bit is also high
        let mut t = Timer::new();
        t.write_tac(5);
        t.div = 0x28;
        assert_eq!(t.write_tac(6), (false, false));
    }
}
