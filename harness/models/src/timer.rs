//! Reference model of the DMG timer (DIV/TIMA/TMA/TAC), one step per clock,
//! written from the timer documentation (Pan Docs "Timer and Divider
//! Registers", "Timer obscure behaviour"): a free-running 16-bit divider, a
//! falling-edge detector on (enable AND selected divider bit), reload from TMA
//! and interrupt request on overflow.

#[derive(Clone, Copy, Debug, PartialEq, Eq)]
pub struct Timer {
    /// 16-bit system counter, incremented every clock; DIV is its upper byte
    pub div: u16,
    pub tima: u8,
    pub tma: u8,
    pub tac: u8,
}

pub fn selected_mask(tac: u8) -> u16 {
    match tac & 3 {
        0 => 1 << 9, // period 1024 clocks
        1 => 1 << 3, // 16
        2 => 1 << 5, // 64
        _ => 1 << 7, // 256
    }
}

pub fn period(tac: u8) -> u32 {
    selected_mask(tac) as u32 * 2
}

impl Timer {
    pub fn new() -> Timer {
        Timer { div: 0, tima: 0, tma: 0, tac: 0 }
    }
    pub fn signal(&self) -> bool {
        self.tac & 4 != 0 && self.div & selected_mask(self.tac) != 0
    }
    pub fn div_reg(&self) -> u8 {
        (self.div >> 8) as u8
    }
    /// TIMA increment; returns true when it overflowed (reload + interrupt request)
    pub fn increment(&mut self) -> bool {
        if self.tima == 0xff {
            self.tima = self.tma;
            true
        } else {
            self.tima += 1;
            false
        }
    }
    /// advance by `clocks`; returns (number of TIMA increments, number of overflows)
    pub fn advance(&mut self, clocks: u64) -> (u64, u64) {
        let mut incs = 0;
        let mut ovf = 0;
        for _ in 0..clocks {
            let before = self.signal();
            self.div = self.div.wrapping_add(1);
            if before && !self.signal() {
                incs += 1;
                if self.increment() {
                    ovf += 1;
                }
            }
        }
        (incs, ovf)
    }
    /// The same as `advance`, in closed form (for batches of millions of clocks): the
    /// selected bit falls each time the divider reaches a multiple of twice its weight, so the
    /// number of increments is a quotient; k increments of TIMA overflow first after
    /// 0x100 - TIMA of them and then every 0x100 - TMA.
    pub fn advance_fast(&mut self, clocks: u64) -> (u64, u64) {
        if self.tac & 4 == 0 {
            self.div = (self.div as u64).wrapping_add(clocks) as u16;
            return (0, 0);
        }
        let period = period(self.tac) as u64;
        let incs = ((self.div as u64 % period) + clocks) / period;
        self.div = (self.div as u64).wrapping_add(clocks) as u16;
        let to_first = 0x100 - self.tima as u64;
        if incs < to_first {
            self.tima = (self.tima as u64 + incs) as u8;
            return (incs, 0);
        }
        let rest = incs - to_first;
        let per = 0x100 - self.tma as u64;
        self.tima = (self.tma as u64 + rest % per) as u8;
        (incs, 1 + rest / per)
    }
    /// TAC write: a falling edge of the detector input increments TIMA
    /// (returns (edge happened, overflow))
    pub fn write_tac(&mut self, v: u8) -> (bool, bool) {
        let before = self.signal();
        self.tac = v;
        if before && !self.signal() {
            let o = self.increment();
            (true, o)
        } else {
            (false, false)
        }
    }
    /// DIV write: resets the divider. Returns true when the detector input was
    /// high (hardware then sees a falling edge; the property does not name it)
    pub fn write_div(&mut self) -> bool {
        let before = self.signal();
        self.div = 0;
        before
    }
}

#[cfg(test)]
mod tests {
    use super::*;

    #[test]
    fn periods_and_overflow() {
        for (tac, p) in [(4u8, 1024u64), (5, 16), (6, 64), (7, 256)] {
            let mut t = Timer::new();
            t.write_tac(tac);
            assert_eq!(t.advance(p - 1), (0, 0));
            assert_eq!(t.advance(1), (1, 0));
            assert_eq!(t.tima, 1);
            t.tma = 0xf0;
            t.tima = 0xff;
            assert_eq!(t.advance(p), (1, 1));
            assert_eq!(t.tima, 0xf0);
        }
        let mut t = Timer::new();
        t.advance(0x1234);
        assert_eq!(t.div_reg(), 0x12);
        assert_eq!(t.tima, 0);
    }

    #[test]
    fn closed_form_equals_per_clock() {
        let mut x = 0x1234_5678_9abc_def0u64;
        let mut next = || {
            x ^= x << 13;
            x ^= x >> 7;
            x ^= x << 17;
            x
        };
        for _ in 0..4000 {
            let r = next();
            let mut a = Timer { div: r as u16, tima: (r >> 16) as u8, tma: (r >> 24) as u8, tac: (r >> 32) as u8 & 7 };
            let mut b = a;
            let n = match (r >> 40) % 5 {
                0 => (r >> 44) % 40,
                1 => (r >> 44) % 3000,
                2 => 65536 * ((r >> 44) % 4) + (r >> 50) % 20,
                3 => (r >> 44) % 300_000,
                _ => period(a.tac) as u64 * ((r >> 44) % 600) + (r >> 56) % 3,
            };
            assert_eq!(a.advance(n), b.advance_fast(n), "{:?} + {}", a, n);
            assert_eq!(a, b);
        }
    }

    #[test]
    fn tac_glitches() {
        // repo test vectors restated: 16-clock -> 64-clock with bit 3 high, bit 5 low
        let mut t = Timer::new();
        t.write_tac(5);
        t.div = 8;
        assert_eq!(t.write_tac(6), (true, false));
        assert_eq!(t.tima, 1);
        // disable with the selected bit high
        let mut t = Timer::new();
        t.write_tac(6);
        t.div = 0x3f;
        assert_eq!(t.write_tac(2), (true, false));
        assert_eq!(t.tima, 1);
        // no glitch when the newly selected bit is also high
        let mut t = Timer::new();
        t.write_tac(5);
        t.div = 0x28;
        assert_eq!(t.write_tac(6), (false, false));
    }
}
