//! Reference model of the DMG bus address decode, written from the memory map
//! documentation. It predicts, for every one of the 65536 addresses, which bits
//! of a read are defined and what they must be, and how a write changes that.
//!
//! The model is deliberately *static*: no clock cycles are ever delivered, so
//! device-internal time (DIV, LY, STAT mode bits) stands still. Initial
//! contents of storage and power-on register values are not part of the
//! property; they are captured from the first observation.

use crate::mbc::{Kind, Mbc};

#[derive(Clone, Copy, Debug, PartialEq, Eq)]
pub enum Region {
    RomLow,
    RomHigh,
    Vram,
    CartRam,
    Wram,
    Echo,
    Oam,
    Unusable,
    Io,
    Hram,
    Ie,
}

pub fn region_of(addr: u16) -> Region {
    match addr {
        0x0000..=0x3fff => Region::RomLow,
        0x4000..=0x7fff => Region::RomHigh,
        0x8000..=0x9fff => Region::Vram,
        0xa000..=0xbfff => Region::CartRam,
        0xc000..=0xdfff => Region::Wram,
        0xe000..=0xfdff => Region::Echo,
        0xfe00..=0xfe9f => Region::Oam,
        0xfea0..=0xfeff => Region::Unusable,
        0xff00..=0xff7f => Region::Io,
        0xff80..=0xfffe => Region::Hram,
        0xffff => Region::Ie,
    }
}

pub fn region_name(r: Region) -> &'static str {
    match r {
        Region::RomLow => "rom0",
        Region::RomHigh => "romN",
        Region::Vram => "vram",
        Region::CartRam => "cart-ram",
        Region::Wram => "wram",
        Region::Echo => "echo",
        Region::Oam => "oam",
        Region::Unusable => "unusable",
        Region::Io => "io",
        Region::Hram => "hram",
        Region::Ie => "ie",
    }
}

/// What the model knows about an I/O register (offset from 0xFF00).
#[derive(Clone, Copy, Debug, PartialEq, Eq)]
pub enum IoKind {
    /// readable register; `mask` = bits that are defined and writable
    Reg(u8),
    /// value not asserted by the property (serial read side)
    Unasserted,
    /// value stands still while no time passes; a write to it has the stated effect
    DivLike,
    /// value stands still; what a write to it does is not asserted (LY, DMA register)
    Still,
    /// unassigned: reads a constant, ignores writes
    Unassigned,
}

pub fn io_kind(off: u8) -> IoKind {
    match off {
        0x00 => IoKind::Reg(0x30),
        0x01 | 0x02 => IoKind::Unasserted,
        0x04 => IoKind::DivLike,
        0x05 | 0x06 => IoKind::Reg(0xff),
        0x07 => IoKind::Reg(0x07),
        0x0f => IoKind::Reg(0x1f),
        0x40 => IoKind::Reg(0xff),
        0x41 => IoKind::Reg(0x78),
        0x42 | 0x43 => IoKind::Reg(0xff),
        0x44 => IoKind::Still,
        0x45 => IoKind::Reg(0xff),
        0x46 => IoKind::Still,
        0x47..=0x4b => IoKind::Reg(0xff),
        _ => IoKind::Unassigned,
    }
}

#[derive(Clone, Debug)]
pub struct Mismatch {
    pub addr: u16,
    pub got: u8,
    pub mask: u8,
    pub want: u8,
    pub why: &'static str,
}

#[derive(Clone)]
pub struct Bus {
    pub mbc: Mbc,
    rom: Vec<u8>,
    /// cartridge RAM contents as the model knows them (all banks)
    cart_ram: Vec<u8>,
    /// expected (mask, value) per address: `read & mask == value`
    pub mask: Vec<u8>,
    pub val: Vec<u8>,
    /// ROM bank the implementation was seen to map at 0x4000 (one of the model's candidates)
    pub rom_high_bank: usize,
    /// RAM bank mapped at 0xA000 (None = nothing asserted there)
    pub ram_bank: Option<usize>,
    captured: bool,
}

impl Bus {
    /// `rom` is the cartridge image; `ram_bytes` the cartridge RAM size (0 or a multiple of 8 KiB)
    pub fn new(kind: Kind, rom: Vec<u8>, ram_bytes: usize) -> Bus {
        let banks = rom.len() / 0x4000;
        assert!(ram_bytes % 0x2000 == 0, "model covers whole 8 KiB RAM banks only");
        Bus {
            mbc: Mbc::new(kind, banks, ram_bytes),
            rom,
            cart_ram: vec![0; ram_bytes],
            mask: vec![0; 0x10000],
            val: vec![0; 0x10000],
            rom_high_bank: 1,
            ram_bank: if ram_bytes > 0 { Some(0) } else { None },
            captured: false,
        }
    }

    fn map_rom_high(&mut self) {
        let base = self.rom_high_bank * 0x4000;
        for i in 0..0x4000 {
            self.mask[0x4000 + i] = 0xff;
            self.val[0x4000 + i] = self.rom[base + i];
        }
    }

    fn map_cart_ram(&mut self) {
        match self.ram_bank {
            Some(b) => {
                let base = b * 0x2000;
                for i in 0..0x2000 {
                    self.mask[0xa000 + i] = 0xff;
                    self.val[0xa000 + i] = self.cart_ram[base + i];
                }
            }
            None => {
                for i in 0..0x2000 {
                    self.mask[0xa000 + i] = 0;
                }
            }
        }
    }

    /// Take the initial contents from a complete observation (`obs[a]` = byte
    /// read at address a with the cartridge in its power-on banking state and
    /// RAM bank 0 mapped). Checks what is asserted even initially: ROM contents
    /// and the constant regions. `ram_dump` = initial cartridge RAM (all banks).
    pub fn capture(&mut self, obs: &[u8], ram_dump: &[u8]) -> Result<(), Mismatch> {
        assert_eq!(obs.len(), 0x10000);
        let n = self.cart_ram.len();
        self.cart_ram.copy_from_slice(&ram_dump[..n]);
        for a in 0..0x4000usize {
            self.mask[a] = 0xff;
            self.val[a] = self.rom[a];
        }
        self.rom_high_bank = self.mbc.rom_bank_high()[0];
        self.map_rom_high();
        self.ram_bank = self.mbc.ram_bank();
        self.map_cart_ram();
        for a in 0x8000..=0xffffusize {
            let addr = a as u16;
            match region_of(addr) {
                Region::Vram | Region::Wram | Region::Oam | Region::Hram | Region::Ie => {
                    self.mask[a] = 0xff;
                    self.val[a] = obs[a];
                }
                Region::CartRam => {}
                // "a constant": the value itself is not prescribed; each address
                // must keep reading what it read first
                Region::Echo | Region::Unusable => {
                    self.mask[a] = 0xff;
                    self.val[a] = obs[a];
                }
                Region::Io => match io_kind(a as u8) {
                    IoKind::Reg(m) => {
                        self.mask[a] = m;
                        self.val[a] = obs[a] & m;
                    }
                    IoKind::Unasserted => self.mask[a] = 0,
                    IoKind::DivLike | IoKind::Still => {
                        self.mask[a] = 0xff;
                        self.val[a] = obs[a];
                    }
                    IoKind::Unassigned => {
                        self.mask[a] = 0xff;
                        self.val[a] = obs[a];
                    }
                },
                _ => unreachable!(),
            }
        }
        self.captured = true;
        match self.check(obs) {
            Some(m) => Err(m),
            None => Ok(()),
        }
    }

    /// Compare a complete observation with the expectations.
    pub fn check(&self, obs: &[u8]) -> Option<Mismatch> {
        for a in 0..0x10000usize {
            if (obs[a] ^ self.val[a]) & self.mask[a] != 0 {
                let addr = a as u16;
                let why = match region_of(addr) {
                    Region::RomLow | Region::RomHigh => "cartridge ROM contents / bank mapping",
                    Region::Echo | Region::Unusable => "unmapped region must read a constant",
                    Region::Io => match io_kind(a as u8) {
                        IoKind::Unassigned => "unassigned I/O must read a constant",
                        IoKind::Reg(_) => "I/O register writable bits",
                        _ => "I/O register that stands still while no time passes",
                    },
                    _ => "storage byte",
                };
                return Some(Mismatch { addr, got: obs[a], mask: self.mask[a], want: self.val[a], why });
            }
        }
        None
    }

    /// Apply a bus write. `probe` reads one address of the implementation; it is
    /// used only where the property leaves a choice (which of the documented ROM
    /// banks MBC1 mode 1 maps; whether a STAT/LYC write raised a STAT request;
    /// what a write does to LY / the DMA register / the LCD position when LCDC
    /// changes). Returns Err if the implementation's choice is not an allowed one.
    pub fn write(&mut self, addr: u16, value: u8, probe: &mut dyn FnMut(u16) -> u8) -> Result<(), Mismatch> {
        let a = addr as usize;
        match region_of(addr) {
            Region::RomLow | Region::RomHigh => {
                self.mbc.write(addr, value);
                // ROM sizes that are not a power of two (72/80/96 banks): what a
                // selection beyond the last bank shows is not documented
                let banks = self.rom.len() / 0x4000;
                if !banks.is_power_of_two() && self.mbc.rom_bank_high_raw().iter().any(|b| *b >= banks) {
                    for a in 0x4000..0x8000usize {
                        self.mask[a] = 0;
                    }
                    self.rom_high_bank = usize::MAX;
                    let rb = self.mbc.ram_bank();
                    if rb != self.ram_bank {
                        self.ram_bank = rb;
                        self.map_cart_ram();
                    }
                    return Ok(());
                }
                let cands = self.mbc.rom_bank_high();
                let mut chosen = cands[0];
                if cands.len() > 1 {
                    // identify the implementation's choice by the whole first 16 bytes + last 2
                    for c in &cands {
                        let base = *c * 0x4000;
                        let mut all = true;
                        for off in [0usize, 1, 2, 3, 0x2000, 0x2001, 0x3ffe, 0x3fff] {
                            if probe(0x4000 + off as u16) != self.rom[base + off] {
                                all = false;
                                break;
                            }
                        }
                        if all {
                            chosen = *c;
                            break;
                        }
                    }
                }
                if chosen != self.rom_high_bank {
                    self.rom_high_bank = chosen;
                    self.map_rom_high();
                }
                let rb = self.mbc.ram_bank();
                if rb != self.ram_bank {
                    self.ram_bank = rb;
                    self.map_cart_ram();
                }
            }
            Region::Vram | Region::Wram | Region::Oam | Region::Hram | Region::Ie => {
                self.val[a] = value;
            }
            Region::CartRam => {
                if let Some(b) = self.ram_bank {
                    self.cart_ram[b * 0x2000 + (a & 0x1fff)] = value;
                    self.val[a] = value;
                }
            }
            Region::Echo | Region::Unusable => {}
            Region::Io => {
                let off = a as u8;
                match io_kind(off) {
                    IoKind::Reg(m) => {
                        self.val[a] = value & m;
                    }
                    IoKind::Unasserted | IoKind::Unassigned => {}
                    IoKind::DivLike => {
                        self.val[a] = 0;
                    }
                    IoKind::Still => {
                        self.val[a] = probe(addr);
                    }
                }
                // couplings the property does not pin down
                if off == 0x41 || off == 0x45 {
                    // a STAT request may be raised when LY = LYC with the coincidence enable set
                    let got = probe(0xff0f);
                    if got & 0x02 != 0 {
                        self.val[0xff0f] |= 0x02;
                    }
                }
                if off == 0x40 {
                    // switching the LCD on/off may move the LCD position
                    self.val[0xff44] = probe(0xff44);
                }
                if off == 0x07 || off == 0x04 {
                    // a TAC or DIV write may produce a falling edge for the timer (with a
                    // divider that is not at zero): TIMA and the timer request are C13's subject
                    self.val[0xff05] = probe(0xff05);
                    if probe(0xff0f) & 0x04 != 0 {
                        self.val[0xff0f] |= 0x04;
                    }
                }
            }
        }
        Ok(())
    }

    pub fn rom_image(&self) -> &[u8] {
        &self.rom
    }
}

#[cfg(test)]
mod tests {
    use super::*;

    struct Flat {
        mem: Vec<u8>,
    }

    #[test]
    fn storage_and_masks() {
        let rom: Vec<u8> = (0..0x8000u32).map(|i| (i * 7) as u8).collect();
        let mut b = Bus::new(Kind::RomOnly, rom.clone(), 0);
        let mut f = Flat { mem: vec![0u8; 0x10000] };
        f.mem[..0x8000].copy_from_slice(&rom);
        b.capture(&f.mem, &[]).unwrap();
        let snap = f.mem.clone();
        let mut p = |a: u16| snap[a as usize];
        b.write(0xc000, 0x12, &mut p).unwrap();
        assert_eq!(b.val[0xc000], 0x12);
        b.write(0xff07, 0xff, &mut p).unwrap();
        assert_eq!((b.mask[0xff07], b.val[0xff07]), (0x07, 0x07));
        b.write(0xe000, 0x55, &mut p).unwrap();
        assert_eq!(b.val[0xe000], 0);
        b.write(0xffff, 0xe5, &mut p).unwrap();
        assert_eq!(b.val[0xffff], 0xe5);
        // the flat memory did not follow: mismatch at the first written byte
        let m = b.check(&f.mem).unwrap();
        assert_eq!(m.addr, 0xc000);
    }
}
