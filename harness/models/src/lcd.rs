//! Reference model of the DMG LCD line/mode schedule in closed form, written
//! from the LCD timing documentation: 154 lines of 456 clocks (70224 per
//! frame); lines 0-143: mode 2 for 80 clocks, mode 3 and mode 0 for 188 clocks
//! each (the fixed split the emulator documents); lines 144-153: mode 1.
//!
//! Time is counted in clocks from power-on; the emulator powers on at the
//! first clock of line 144 (start of vertical blank).

pub const LINE: u64 = 456;
pub const LINES: u64 = 154;
pub const FRAME: u64 = LINE * LINES;
pub const POWER_ON_OFFSET: u64 = 144 * LINE;

pub const STAT_MODE0: u8 = 0x08;
pub const STAT_MODE1: u8 = 0x10;
pub const STAT_MODE2: u8 = 0x20;
pub const STAT_LYC: u8 = 0x40;

#[derive(Clone, Copy, Debug, PartialEq, Eq)]
pub struct Pos {
    pub line: u8,
    pub dot: u16,
    pub mode: u8,
}

pub fn position(t: u64) -> Pos {
    let p = (POWER_ON_OFFSET + t) % FRAME;
    let line = (p / LINE) as u8;
    let dot = (p % LINE) as u16;
    let mode = if line >= 144 {
        1
    } else if dot < 80 {
        2
    } else if dot < 268 {
        3
    } else {
        0
    };
    Pos { line, dot, mode }
}

/// STAT bits 0-2 at time t for a given LYC
pub fn stat_low(t: u64, lyc: u8) -> u8 {
    let p = position(t);
    p.mode | if p.line == lyc { 4 } else { 0 }
}

#[derive(Clone, Copy, Debug, Default, PartialEq, Eq)]
pub struct Events {
    /// number of VBlank requests (LY becoming 144)
    pub vblank: u32,
    /// number of STAT request causes (entries to an enabled mode, LY becoming LYC with the enable set)
    pub stat: u32,
    pub mode0_entries: u32,
    pub mode1_entries: u32,
    pub mode2_entries: u32,
    pub lyc_hits: u32,
}

/// Events whose instant e satisfies t0 < e <= t1, for the STAT enable bits
/// `stat` (bits 3-6) and the compare value `lyc`, both constant over the interval.
pub fn events(t0: u64, t1: u64, stat: u8, lyc: u8) -> Events {
    let mut ev = Events::default();
    // instants are multiples of 4 on the dot grid: 0 (line start), 80, 268 within a line
    let abs = |t: u64| POWER_ON_OFFSET + t;
    let (a0, a1) = (abs(t0), abs(t1));
    let first_line_start = (a0 / LINE) * LINE;
    let mut ls = first_line_start;
    while ls <= a1 {
        let line = ((ls % FRAME) / LINE) as u8;
        // line start
        if ls > a0 && ls <= a1 {
            if line == 144 {
                ev.vblank += 1;
                ev.mode1_entries += 1;
                if stat & STAT_MODE1 != 0 {
                    ev.stat += 1;
                }
            } else if line < 144 {
                ev.mode2_entries += 1;
                if stat & STAT_MODE2 != 0 {
                    ev.stat += 1;
                }
            }
            if line == lyc {
                ev.lyc_hits += 1;
                if stat & STAT_LYC != 0 {
                    ev.stat += 1;
                }
            }
        }
        if line < 144 {
            let m0 = ls + 268;
            if m0 > a0 && m0 <= a1 {
                ev.mode0_entries += 1;
                if stat & STAT_MODE0 != 0 {
                    ev.stat += 1;
                }
            }
        }
        ls += LINE;
    }
    ev
}

#[cfg(test)]
mod tests {
    use super::*;

    #[test]
    fn frame_structure() {
        assert_eq!(FRAME, 70224);
        assert_eq!(position(0), Pos { line: 144, dot: 0, mode: 1 });
        assert_eq!(position(4559), Pos { line: 153, dot: 455, mode: 1 });
        assert_eq!(position(4560), Pos { line: 0, dot: 0, mode: 2 });
        assert_eq!(position(4560 + 79).mode, 2);
        assert_eq!(position(4560 + 80).mode, 3);
        assert_eq!(position(4560 + 267).mode, 3);
        assert_eq!(position(4560 + 268).mode, 0);
        assert_eq!(position(4560 + 455).mode, 0);
        assert_eq!(position(4560 + 456), Pos { line: 1, dot: 0, mode: 2 });
        assert_eq!(position(4560 + 143 * 456 + 455), Pos { line: 143, dot: 455, mode: 0 });
        assert_eq!(position(70224), Pos { line: 144, dot: 0, mode: 1 });
        // one VBlank per frame, at the instant LY becomes 144
        assert_eq!(events(0, 70223, 0, 255).vblank, 0);
        assert_eq!(events(0, 70224, 0, 255).vblank, 1);
        assert_eq!(events(70220, 70224, 0, 255).vblank, 1);
        assert_eq!(events(70224, 70228, 0, 255).vblank, 0);
        assert_eq!(events(0, 10 * 70224, 0, 255).vblank, 10);
        let e = events(0, 70224, 0x78, 0);
        assert_eq!((e.mode0_entries, e.mode1_entries, e.mode2_entries, e.lyc_hits), (144, 1, 144, 1));
        assert_eq!(e.stat, 144 + 1 + 144 + 1);
        // LYC = 144 hits together with the VBlank
        assert_eq!(events(70220, 70224, STAT_LYC, 144).stat, 1);
        assert_eq!(events(0, 70224, STAT_LYC, 200).stat, 0);
    }
}
