//! Reference SM83 CPU, written from the published instruction-set description
//! (decode by the x/y/z/p/q bit fields of the opcode). It shares no code and no
//! table with the emulator under test.
//!
//! One call of `step` executes exactly one instruction at `cpu.pc`.

#[derive(Clone, Copy, Debug, PartialEq, Eq, Default)]
pub struct Cpu {
    pub a: u8,
    pub f: u8,
    pub b: u8,
    pub c: u8,
    pub d: u8,
    pub e: u8,
    pub h: u8,
    pub l: u8,
    pub sp: u16,
    pub pc: u16,
}

pub const FZ: u8 = 0x80;
pub const FN: u8 = 0x40;
pub const FH: u8 = 0x20;
pub const FC: u8 = 0x10;

impl Cpu {
    pub fn bc(&self) -> u16 {
        (self.b as u16) << 8 | self.c as u16
    }
    pub fn de(&self) -> u16 {
        (self.d as u16) << 8 | self.e as u16
    }
    pub fn hl(&self) -> u16 {
        (self.h as u16) << 8 | self.l as u16
    }
    pub fn af(&self) -> u16 {
        (self.a as u16) << 8 | self.f as u16
    }
    pub fn set_bc(&mut self, v: u16) {
        self.b = (v >> 8) as u8;
        self.c = v as u8;
    }
    pub fn set_de(&mut self, v: u16) {
        self.d = (v >> 8) as u8;
        self.e = v as u8;
    }
    pub fn set_hl(&mut self, v: u16) {
        self.h = (v >> 8) as u8;
        self.l = v as u8;
    }
    pub fn set_af(&mut self, v: u16) {
        self.a = (v >> 8) as u8;
        self.f = (v as u8) & 0xf0;
    }
    fn flag(&self, m: u8) -> bool {
        self.f & m != 0
    }
    fn set_flags(&mut self, z: bool, n: bool, h: bool, c: bool) {
        self.f = (z as u8) << 7 | (n as u8) << 6 | (h as u8) << 5 | (c as u8) << 4;
    }
}

pub trait Bus {
    fn read(&mut self, addr: u16) -> u8;
    fn write(&mut self, addr: u16, value: u8);
}

/// What the instruction does to the interrupt-master-enable / run state.
#[derive(Clone, Copy, Debug, PartialEq, Eq)]
pub enum Ctl {
    None,
    Halt,
    Stop,
    Di,
    /// EI: enable after the *following* instruction
    Ei,
    /// RETI: enable immediately
    Reti,
}

#[derive(Clone, Copy, Debug, PartialEq, Eq)]
pub struct StepOut {
    /// machine cycles consumed
    pub cycles: u32,
    pub ctl: Ctl,
    /// instruction redirects control or changes halt / IME state
    pub terminator: bool,
    /// for conditional instructions: was the branch taken
    pub taken: Option<bool>,
    /// encoded length in bytes
    pub len: u8,
    /// one of the eleven undefined opcodes (nothing was executed)
    pub undefined: bool,
}

pub const UNDEFINED: [u8; 11] = [
    0xd3, 0xdb, 0xdd, 0xe3, 0xe4, 0xeb, 0xec, 0xed, 0xf4, 0xfc, 0xfd,
];

pub fn is_undefined(op: u8) -> bool {
    UNDEFINED.contains(&op)
}

fn get_r<B: Bus>(cpu: &Cpu, bus: &mut B, idx: u8) -> u8 {
    match idx & 7 {
        0 => cpu.b,
        1 => cpu.c,
        2 => cpu.d,
        3 => cpu.e,
        4 => cpu.h,
        5 => cpu.l,
        6 => bus.read(cpu.hl()),
        _ => cpu.a,
    }
}

fn set_r<B: Bus>(cpu: &mut Cpu, bus: &mut B, idx: u8, v: u8) {
    match idx & 7 {
        0 => cpu.b = v,
        1 => cpu.c = v,
        2 => cpu.d = v,
        3 => cpu.e = v,
        4 => cpu.h = v,
        5 => cpu.l = v,
        6 => bus.write(cpu.hl(), v),
        _ => cpu.a = v,
    }
}

fn get_rp(cpu: &Cpu, p: u8) -> u16 {
    match p & 3 {
        0 => cpu.bc(),
        1 => cpu.de(),
        2 => cpu.hl(),
        _ => cpu.sp,
    }
}

fn set_rp(cpu: &mut Cpu, p: u8, v: u16) {
    match p & 3 {
        0 => cpu.set_bc(v),
        1 => cpu.set_de(v),
        2 => cpu.set_hl(v),
        _ => cpu.sp = v,
    }
}

fn cond(cpu: &Cpu, y: u8) -> bool {
    match y & 3 {
        0 => !cpu.flag(FZ),
        1 => cpu.flag(FZ),
        2 => !cpu.flag(FC),
        _ => cpu.flag(FC),
    }
}

/// The eight accumulator operations ADD ADC SUB SBC AND XOR OR CP.
pub fn alu(cpu: &mut Cpu, y: u8, v: u8) {
    let a = cpu.a;
    let cin = if cpu.flag(FC) { 1u16 } else { 0 };
    match y & 7 {
        0 | 1 => {
            let c = if y & 7 == 1 { cin } else { 0 };
            let r = a as u16 + v as u16 + c;
            let h = (a & 0xf) as u16 + (v & 0xf) as u16 + c > 0xf;
            cpu.a = r as u8;
            cpu.set_flags(r as u8 == 0, false, h, r > 0xff);
        }
        2 | 3 | 7 => {
            let c = if y & 7 == 3 { cin } else { 0 };
            let r = (a as u16).wrapping_sub(v as u16).wrapping_sub(c);
            let h = ((a & 0xf) as u16) < (v & 0xf) as u16 + c;
            let cy = (a as u16) < v as u16 + c;
            if y & 7 != 7 {
                cpu.a = r as u8;
            }
            cpu.set_flags(r as u8 == 0, true, h, cy);
        }
        4 => {
            cpu.a = a & v;
            cpu.set_flags(cpu.a == 0, false, true, false);
        }
        5 => {
            cpu.a = a ^ v;
            cpu.set_flags(cpu.a == 0, false, false, false);
        }
        _ => {
            cpu.a = a | v;
            cpu.set_flags(cpu.a == 0, false, false, false);
        }
    }
}

/// CB-prefixed rotate/shift group: RLC RRC RL RR SLA SRA SWAP SRL.
pub fn rot(cpu: &mut Cpu, y: u8, v: u8) -> u8 {
    let cin = cpu.flag(FC) as u8;
    let (r, c) = match y & 7 {
        0 => (v.rotate_left(1), v >> 7),
        1 => (v.rotate_right(1), v & 1),
        2 => (v << 1 | cin, v >> 7),
        3 => (v >> 1 | cin << 7, v & 1),
        4 => (v << 1, v >> 7),
        5 => (v >> 1 | (v & 0x80), v & 1),
        6 => (v << 4 | v >> 4, 0),
        _ => (v >> 1, v & 1),
    };
    cpu.set_flags(r == 0, false, false, c != 0);
    r
}

pub fn daa(cpu: &mut Cpu) {
    // Decimal adjust, as specified: correction built from N, H, C and A.
    let mut a = cpu.a;
    let mut carry = cpu.flag(FC);
    if !cpu.flag(FN) {
        let mut corr = 0u8;
        if cpu.flag(FH) || (a & 0x0f) > 0x09 {
            corr |= 0x06;
        }
        if carry || a > 0x99 {
            corr |= 0x60;
            carry = true;
        }
        a = a.wrapping_add(corr);
    } else {
        let mut corr = 0u8;
        if cpu.flag(FH) {
            corr |= 0x06;
        }
        if carry {
            corr |= 0x60;
        }
        a = a.wrapping_sub(corr);
    }
    cpu.a = a;
    let n = cpu.flag(FN);
    cpu.set_flags(a == 0, n, false, carry);
}

/// SP + signed 8-bit offset; H and C come from the unsigned low-byte addition.
pub fn sp_offset(cpu: &mut Cpu, e: u8) -> u16 {
    let sp = cpu.sp;
    let r = sp.wrapping_add(e as i8 as i16 as u16);
    let h = (sp & 0xf) + (e as u16 & 0xf) > 0xf;
    let c = (sp & 0xff) + e as u16 > 0xff;
    cpu.set_flags(false, false, h, c);
    r
}

fn push16<B: Bus>(cpu: &mut Cpu, bus: &mut B, v: u16) {
    cpu.sp = cpu.sp.wrapping_sub(1);
    bus.write(cpu.sp, (v >> 8) as u8);
    cpu.sp = cpu.sp.wrapping_sub(1);
    bus.write(cpu.sp, v as u8);
}

fn pop16<B: Bus>(cpu: &mut Cpu, bus: &mut B) -> u16 {
    let lo = bus.read(cpu.sp) as u16;
    cpu.sp = cpu.sp.wrapping_add(1);
    let hi = bus.read(cpu.sp) as u16;
    cpu.sp = cpu.sp.wrapping_add(1);
    hi << 8 | lo
}

fn out(cycles: u32, len: u8) -> StepOut {
    StepOut { cycles, ctl: Ctl::None, terminator: false, taken: None, len, undefined: false }
}

/// Execute one instruction. Instruction bytes are fetched through `bus`.
pub fn step<B: Bus>(cpu: &mut Cpu, bus: &mut B) -> StepOut {
    let pc0 = cpu.pc;
    let op = bus.read(pc0);
    if is_undefined(op) {
        return StepOut { cycles: 0, ctl: Ctl::None, terminator: false, taken: None, len: 1, undefined: true };
    }
    let x = op >> 6;
    let y = (op >> 3) & 7;
    let z = op & 7;
    let p = y >> 1;
    let q = y & 1;
    let imm8 = |bus: &mut B| bus.read(pc0.wrapping_add(1));
    let imm16 = |bus: &mut B| {
        let lo = bus.read(pc0.wrapping_add(1)) as u16;
        let hi = bus.read(pc0.wrapping_add(2)) as u16;
        hi << 8 | lo
    };
    let next = |n: u16| pc0.wrapping_add(n);

    match x {
        1 => {
            if op == 0x76 {
                cpu.pc = next(1);
                return StepOut { ctl: Ctl::Halt, terminator: true, ..out(1, 1) };
            }
            let v = get_r(cpu, bus, z);
            set_r(cpu, bus, y, v);
            cpu.pc = next(1);
            out(if z == 6 || y == 6 { 2 } else { 1 }, 1)
        }
        2 => {
            let v = get_r(cpu, bus, z);
            alu(cpu, y, v);
            cpu.pc = next(1);
            out(if z == 6 { 2 } else { 1 }, 1)
        }
        0 => match z {
            0 => match y {
                0 => {
                    cpu.pc = next(1);
                    out(1, 1)
                }
                1 => {
                    // LD (nn),SP
                    let a = imm16(bus);
                    bus.write(a, cpu.sp as u8);
                    bus.write(a.wrapping_add(1), (cpu.sp >> 8) as u8);
                    cpu.pc = next(3);
                    out(5, 3)
                }
                2 => {
                    cpu.pc = next(2);
                    StepOut { ctl: Ctl::Stop, terminator: true, ..out(1, 2) }
                }
                _ => {
                    // JR / JR cc
                    let e = imm8(bus);
                    let take = y == 3 || cond(cpu, y - 4);
                    let fall = next(2);
                    cpu.pc = if take { fall.wrapping_add(e as i8 as i16 as u16) } else { fall };
                    StepOut {
                        terminator: true,
                        taken: if y == 3 { None } else { Some(take) },
                        ..out(if take { 3 } else { 2 }, 2)
                    }
                }
            },
            1 => {
                if q == 0 {
                    let v = imm16(bus);
                    set_rp(cpu, p, v);
                    cpu.pc = next(3);
                    out(3, 3)
                } else {
                    let hl = cpu.hl();
                    let v = get_rp(cpu, p);
                    let r = hl as u32 + v as u32;
                    let h = (hl & 0xfff) + (v & 0xfff) > 0xfff;
                    cpu.set_hl(r as u16);
                    cpu.f = (cpu.f & FZ) | if h { FH } else { 0 } | if r > 0xffff { FC } else { 0 };
                    cpu.pc = next(1);
                    out(2, 1)
                }
            }
            2 => {
                let addr = match p {
                    0 => cpu.bc(),
                    1 => cpu.de(),
                    _ => cpu.hl(),
                };
                if q == 0 {
                    bus.write(addr, cpu.a);
                } else {
                    cpu.a = bus.read(addr);
                }
                if p == 2 {
                    cpu.set_hl(addr.wrapping_add(1));
                } else if p == 3 {
                    cpu.set_hl(addr.wrapping_sub(1));
                }
                cpu.pc = next(1);
                out(2, 1)
            }
            3 => {
                let v = get_rp(cpu, p);
                set_rp(cpu, p, if q == 0 { v.wrapping_add(1) } else { v.wrapping_sub(1) });
                cpu.pc = next(1);
                out(2, 1)
            }
            4 | 5 => {
                let v = get_r(cpu, bus, y);
                let r = if z == 4 { v.wrapping_add(1) } else { v.wrapping_sub(1) };
                set_r(cpu, bus, y, r);
                let h = if z == 4 { v & 0xf == 0xf } else { v & 0xf == 0 };
                cpu.f = (cpu.f & FC) | if r == 0 { FZ } else { 0 } | if z == 5 { FN } else { 0 } | if h { FH } else { 0 };
                cpu.pc = next(1);
                out(if y == 6 { 3 } else { 1 }, 1)
            }
            6 => {
                let v = imm8(bus);
                set_r(cpu, bus, y, v);
                cpu.pc = next(2);
                out(if y == 6 { 3 } else { 2 }, 2)
            }
            _ => {
                match y {
                    0 => {
                        cpu.a = rot(cpu, 0, cpu.a);
                        cpu.f &= FC;
                    }
                    1 => {
                        cpu.a = rot(cpu, 1, cpu.a);
                        cpu.f &= FC;
                    }
                    2 => {
                        cpu.a = rot(cpu, 2, cpu.a);
                        cpu.f &= FC;
                    }
                    3 => {
                        cpu.a = rot(cpu, 3, cpu.a);
                        cpu.f &= FC;
                    }
                    4 => daa(cpu),
                    5 => {
                        cpu.a = !cpu.a;
                        cpu.f |= FN | FH;
                    }
                    6 => cpu.f = (cpu.f & FZ) | FC,
                    _ => cpu.f = (cpu.f & FZ) | ((cpu.f ^ FC) & FC),
                }
                cpu.pc = next(1);
                out(1, 1)
            }
        },
        _ => match z {
            0 => match y {
                0..=3 => {
                    let take = cond(cpu, y);
                    if take {
                        cpu.pc = next(1); // value irrelevant, replaced by pop
                        cpu.pc = pop16(cpu, bus);
                    } else {
                        cpu.pc = next(1);
                    }
                    StepOut { terminator: true, taken: Some(take), ..out(if take { 5 } else { 2 }, 1) }
                }
                4 => {
                    let a = 0xff00 | imm8(bus) as u16;
                    bus.write(a, cpu.a);
                    cpu.pc = next(2);
                    out(3, 2)
                }
                5 => {
                    let e = imm8(bus);
                    cpu.sp = sp_offset(cpu, e);
                    cpu.pc = next(2);
                    out(4, 2)
                }
                6 => {
                    let a = 0xff00 | imm8(bus) as u16;
                    cpu.a = bus.read(a);
                    cpu.pc = next(2);
                    out(3, 2)
                }
                _ => {
                    let e = imm8(bus);
                    let r = sp_offset(cpu, e);
                    cpu.set_hl(r);
                    cpu.pc = next(2);
                    out(3, 2)
                }
            },
            1 => {
                if q == 0 {
                    let v = pop16(cpu, bus);
                    match p {
                        0 => cpu.set_bc(v),
                        1 => cpu.set_de(v),
                        2 => cpu.set_hl(v),
                        _ => cpu.set_af(v),
                    }
                    cpu.pc = next(1);
                    out(3, 1)
                } else {
                    match p {
                        0 => {
                            cpu.pc = pop16(cpu, bus);
                            StepOut { terminator: true, ..out(4, 1) }
                        }
                        1 => {
                            cpu.pc = pop16(cpu, bus);
                            StepOut { terminator: true, ctl: Ctl::Reti, ..out(4, 1) }
                        }
                        2 => {
                            cpu.pc = cpu.hl();
                            StepOut { terminator: true, ..out(1, 1) }
                        }
                        _ => {
                            cpu.sp = cpu.hl();
                            cpu.pc = next(1);
                            out(2, 1)
                        }
                    }
                }
            }
            2 => match y {
                0..=3 => {
                    let a = imm16(bus);
                    let take = cond(cpu, y);
                    cpu.pc = if take { a } else { next(3) };
                    StepOut { terminator: true, taken: Some(take), ..out(if take { 4 } else { 3 }, 3) }
                }
                4 => {
                    bus.write(0xff00 | cpu.c as u16, cpu.a);
                    cpu.pc = next(1);
                    out(2, 1)
                }
                5 => {
                    let a = imm16(bus);
                    bus.write(a, cpu.a);
                    cpu.pc = next(3);
                    out(4, 3)
                }
                6 => {
                    cpu.a = bus.read(0xff00 | cpu.c as u16);
                    cpu.pc = next(1);
                    out(2, 1)
                }
                _ => {
                    let a = imm16(bus);
                    cpu.a = bus.read(a);
                    cpu.pc = next(3);
                    out(4, 3)
                }
            },
            3 => match y {
                0 => {
                    cpu.pc = imm16(bus);
                    StepOut { terminator: true, ..out(4, 3) }
                }
                1 => {
                    // CB prefix
                    let cb = imm8(bus);
                    let cx = cb >> 6;
                    let cy = (cb >> 3) & 7;
                    let cz = cb & 7;
                    let v = get_r(cpu, bus, cz);
                    let cycles = match cx {
                        0 => {
                            let r = rot(cpu, cy, v);
                            set_r(cpu, bus, cz, r);
                            if cz == 6 { 4 } else { 2 }
                        }
                        1 => {
                            cpu.f = (cpu.f & FC) | FH | if v & (1 << cy) == 0 { FZ } else { 0 };
                            if cz == 6 { 3 } else { 2 }
                        }
                        2 => {
                            set_r(cpu, bus, cz, v & !(1 << cy));
                            if cz == 6 { 4 } else { 2 }
                        }
                        _ => {
                            set_r(cpu, bus, cz, v | (1 << cy));
                            if cz == 6 { 4 } else { 2 }
                        }
                    };
                    cpu.pc = next(2);
                    out(cycles, 2)
                }
                6 => {
                    cpu.pc = next(1);
                    StepOut { terminator: true, ctl: Ctl::Di, ..out(1, 1) }
                }
                7 => {
                    cpu.pc = next(1);
                    StepOut { terminator: true, ctl: Ctl::Ei, ..out(1, 1) }
                }
                _ => unreachable!("undefined opcode filtered above"),
            },
            4 => {
                // CALL cc (y 0..3); y 4..7 undefined, filtered above
                let a = imm16(bus);
                let take = cond(cpu, y);
                let ret = next(3);
                if take {
                    push16(cpu, bus, ret);
                    cpu.pc = a;
                } else {
                    cpu.pc = ret;
                }
                StepOut { terminator: true, taken: Some(take), ..out(if take { 6 } else { 3 }, 3) }
            }
            5 => {
                if q == 0 {
                    let v = match p {
                        0 => cpu.bc(),
                        1 => cpu.de(),
                        2 => cpu.hl(),
                        _ => cpu.af(),
                    };
                    push16(cpu, bus, v);
                    cpu.pc = next(1);
                    out(4, 1)
                } else {
                    // only CALL nn (p == 0) is defined
                    let a = imm16(bus);
                    let ret = next(3);
                    push16(cpu, bus, ret);
                    cpu.pc = a;
                    StepOut { terminator: true, ..out(6, 3) }
                }
            }
            6 => {
                let v = imm8(bus);
                alu(cpu, y, v);
                cpu.pc = next(2);
                out(2, 2)
            }
            _ => {
                let ret = next(1);
                push16(cpu, bus, ret);
                cpu.pc = (y as u16) * 8;
                StepOut { terminator: true, ..out(4, 1) }
            }
        },
    }
}

/// Length in bytes of the instruction starting with `op` (second byte irrelevant:
/// every CB-prefixed instruction is two bytes). Undefined opcodes count as 1.
pub fn length(op: u8) -> u8 {
    LENGTHS[op as usize]
}

/// Literal copy of the published unprefixed length table (second, independent
/// source inside the trusted base; cross-checked against `step` in the unit tests).
pub const LENGTHS: [u8; 256] = [
    1, 3, 1, 1, 1, 1, 2, 1, 3, 1, 1, 1, 1, 1, 2, 1, // 0x
    2, 3, 1, 1, 1, 1, 2, 1, 2, 1, 1, 1, 1, 1, 2, 1, // 1x
    2, 3, 1, 1, 1, 1, 2, 1, 2, 1, 1, 1, 1, 1, 2, 1, // 2x
    2, 3, 1, 1, 1, 1, 2, 1, 2, 1, 1, 1, 1, 1, 2, 1, // 3x
    1, 1, 1, 1, 1, 1, 1, 1, 1, 1, 1, 1, 1, 1, 1, 1, // 4x
    1, 1, 1, 1, 1, 1, 1, 1, 1, 1, 1, 1, 1, 1, 1, 1, // 5x
    1, 1, 1, 1, 1, 1, 1, 1, 1, 1, 1, 1, 1, 1, 1, 1, // 6x
    1, 1, 1, 1, 1, 1, 1, 1, 1, 1, 1, 1, 1, 1, 1, 1, // 7x
    1, 1, 1, 1, 1, 1, 1, 1, 1, 1, 1, 1, 1, 1, 1, 1, // 8x
    1, 1, 1, 1, 1, 1, 1, 1, 1, 1, 1, 1, 1, 1, 1, 1, // 9x
    1, 1, 1, 1, 1, 1, 1, 1, 1, 1, 1, 1, 1, 1, 1, 1, // Ax
    1, 1, 1, 1, 1, 1, 1, 1, 1, 1, 1, 1, 1, 1, 1, 1, // Bx
    1, 1, 3, 3, 3, 1, 2, 1, 1, 1, 3, 2, 3, 3, 2, 1, // Cx
    1, 1, 3, 1, 3, 1, 2, 1, 1, 1, 3, 1, 3, 1, 2, 1, // Dx
    2, 1, 1, 1, 1, 1, 2, 1, 2, 1, 3, 1, 1, 1, 2, 1, // Ex
    2, 1, 1, 1, 1, 1, 2, 1, 2, 1, 3, 1, 1, 1, 2, 1, // Fx
];

/// Literal copy of the published machine-cycle table for unprefixed opcodes:
/// (not taken / unconditional, taken). 0 = undefined opcode.
pub const CYCLES: [(u8, u8); 256] = {
    const fn u(n: u8) -> (u8, u8) {
        (n, n)
    }
    [
        u(1), u(3), u(2), u(2), u(1), u(1), u(2), u(1), u(5), u(2), u(2), u(2), u(1), u(1), u(2), u(1), // 0x
        u(1), u(3), u(2), u(2), u(1), u(1), u(2), u(1), u(3), u(2), u(2), u(2), u(1), u(1), u(2), u(1), // 1x
        (2, 3), u(3), u(2), u(2), u(1), u(1), u(2), u(1), (2, 3), u(2), u(2), u(2), u(1), u(1), u(2), u(1), // 2x
        (2, 3), u(3), u(2), u(2), u(3), u(3), u(3), u(1), (2, 3), u(2), u(2), u(2), u(1), u(1), u(2), u(1), // 3x
        u(1), u(1), u(1), u(1), u(1), u(1), u(2), u(1), u(1), u(1), u(1), u(1), u(1), u(1), u(2), u(1), // 4x
        u(1), u(1), u(1), u(1), u(1), u(1), u(2), u(1), u(1), u(1), u(1), u(1), u(1), u(1), u(2), u(1), // 5x
        u(1), u(1), u(1), u(1), u(1), u(1), u(2), u(1), u(1), u(1), u(1), u(1), u(1), u(1), u(2), u(1), // 6x
        u(2), u(2), u(2), u(2), u(2), u(2), u(1), u(2), u(1), u(1), u(1), u(1), u(1), u(1), u(2), u(1), // 7x
        u(1), u(1), u(1), u(1), u(1), u(1), u(2), u(1), u(1), u(1), u(1), u(1), u(1), u(1), u(2), u(1), // 8x
        u(1), u(1), u(1), u(1), u(1), u(1), u(2), u(1), u(1), u(1), u(1), u(1), u(1), u(1), u(2), u(1), // 9x
        u(1), u(1), u(1), u(1), u(1), u(1), u(2), u(1), u(1), u(1), u(1), u(1), u(1), u(1), u(2), u(1), // Ax
        u(1), u(1), u(1), u(1), u(1), u(1), u(2), u(1), u(1), u(1), u(1), u(1), u(1), u(1), u(2), u(1), // Bx
        (2, 5), u(3), (3, 4), u(4), (3, 6), u(4), u(2), u(4), (2, 5), u(4), (3, 4), u(0), (3, 6), u(6), u(2), u(4), // Cx
        (2, 5), u(3), (3, 4), u(0), (3, 6), u(4), u(2), u(4), (2, 5), u(4), (3, 4), u(0), (3, 6), u(0), u(2), u(4), // Dx
        u(3), u(3), u(2), u(0), u(0), u(4), u(2), u(4), u(4), u(1), u(4), u(0), u(0), u(0), u(2), u(4), // Ex
        u(3), u(3), u(2), u(1), u(0), u(4), u(2), u(4), u(3), u(2), u(4), u(1), u(0), u(0), u(2), u(4), // Fx
    ]
};

/// Machine cycles of a CB-prefixed instruction (prefix included).
pub fn cb_cycles(cb: u8) -> u8 {
    if cb & 7 != 6 {
        2
    } else if cb >> 6 == 1 {
        3
    } else {
        4
    }
}

/// The block-terminator set: instructions that redirect control or change the
/// halt or interrupt-enable state.
pub fn is_terminator(op: u8) -> bool {
    matches!(
        op,
        0x10 | 0x76 | 0xf3 | 0xfb | 0xd9 | 0xc9 | 0xe9 | 0xc3 | 0xcd | 0x18
            | 0x20 | 0x28 | 0x30 | 0x38
            | 0xc0 | 0xc8 | 0xd0 | 0xd8
            | 0xc2 | 0xca | 0xd2 | 0xda
            | 0xc4 | 0xcc | 0xd4 | 0xdc
            | 0xc7 | 0xcf | 0xd7 | 0xdf | 0xe7 | 0xef | 0xf7 | 0xff
    )
}

/// A flat 64 KiB memory with access logs, for self-tests and register-only checks.
pub struct FlatBus {
    pub mem: Box<[u8; 0x10000]>,
    pub writes: Vec<(u16, u8)>,
    pub reads: Vec<u16>,
}

impl FlatBus {
    pub fn new() -> Self {
        FlatBus { mem: Box::new([0; 0x10000]), writes: Vec::new(), reads: Vec::new() }
    }
}

impl Bus for FlatBus {
    fn read(&mut self, addr: u16) -> u8 {
        self.reads.push(addr);
        self.mem[addr as usize]
    }
    fn write(&mut self, addr: u16, value: u8) {
        self.writes.push((addr, value));
        self.mem[addr as usize] = value;
    }
}

#[cfg(test)]
mod tests {
    use super::*;

    fn run(code: &[u8], cpu: &mut Cpu) -> (StepOut, FlatBus) {
        let mut bus = FlatBus::new();
        for (i, b) in code.iter().enumerate() {
            bus.mem[cpu.pc as usize + i] = *b;
        }
        let o = step(cpu, &mut bus);
        (o, bus)
    }

    #[test]
    fn tables_agree_with_step() {
        // length and cycle tables (literal copies of the published tables) against
        // the rule-driven step function, for every defined opcode and both outcomes
        for op in 0..=255u8 {
            if is_undefined(op) {
                assert_eq!(CYCLES[op as usize], (0, 0));
                continue;
            }
            if op == 0xcb {
                for cb in 0..=255u8 {
                    let mut cpu = Cpu { pc: 0x100, sp: 0x8000, h: 0x90, ..Cpu::default() };
                    let (o, _) = run(&[0xcb, cb], &mut cpu);
                    assert_eq!(o.len, 2);
                    assert_eq!(o.cycles, cb_cycles(cb) as u32, "cb {:02x}", cb);
                    assert_eq!(cpu.pc, 0x102);
                    assert!(!o.terminator);
                }
                continue;
            }
            let mut seen = [false, false];
            for f in [0x00u8, 0xf0, 0x80, 0x10] {
                let mut cpu = Cpu { pc: 0x100, sp: 0x8000, h: 0x90, f, ..Cpu::default() };
                let (o, _) = run(&[op, 0x34, 0x12], &mut cpu);
                assert_eq!(o.len, LENGTHS[op as usize], "len {:02x}", op);
                let (nt, t) = CYCLES[op as usize];
                let expect = if o.taken == Some(true) { t } else { nt };
                assert_eq!(o.cycles, expect as u32, "cycles {:02x} f={:02x}", op, f);
                assert_eq!(o.terminator, is_terminator(op), "term {:02x}", op);
                if let Some(t) = o.taken {
                    seen[t as usize] = true;
                    assert_ne!(CYCLES[op as usize].0, CYCLES[op as usize].1);
                } else {
                    assert_eq!(CYCLES[op as usize].0, CYCLES[op as usize].1, "op {:02x}", op);
                }
                if !o.terminator {
                    assert_eq!(cpu.pc, 0x100 + o.len as u16);
                }
            }
            if seen[0] || seen[1] {
                assert!(seen[0] && seen[1], "both outcomes of {:02x}", op);
            }
        }
    }

    #[test]
    fn daa_bcd_identity() {
        // for all BCD operands, ADD/SUB followed by DAA gives the BCD result
        for x in 0..100u32 {
            for y in 0..100u32 {
                let bx = ((x / 10) << 4 | x % 10) as u8;
                let by = ((y / 10) << 4 | y % 10) as u8;
                let mut cpu = Cpu { a: bx, ..Cpu::default() };
                alu(&mut cpu, 0, by);
                daa(&mut cpu);
                let s = (x + y) % 100;
                assert_eq!(cpu.a, ((s / 10) << 4 | s % 10) as u8);
                assert_eq!(cpu.flag(FC), x + y > 99);
                let mut cpu = Cpu { a: bx, ..Cpu::default() };
                alu(&mut cpu, 2, by);
                daa(&mut cpu);
                let d = (100 + x - y) % 100;
                assert_eq!(cpu.a, ((d / 10) << 4 | d % 10) as u8);
                assert_eq!(cpu.flag(FC), x < y);
            }
        }
    }

    #[test]
    fn known_vectors() {
        // ADD SP,e8 carries come from the low byte
        let mut cpu = Cpu { sp: 0x00ff, pc: 0, ..Cpu::default() };
        let (o, _) = run(&[0xe8, 0x01], &mut cpu);
        assert_eq!((cpu.sp, cpu.f, o.cycles), (0x0100, FH | FC, 4));
        let mut cpu = Cpu { sp: 0x0000, pc: 0, ..Cpu::default() };
        run(&[0xe8, 0xff], &mut cpu);
        assert_eq!((cpu.sp, cpu.f), (0xffff, 0));
        let mut cpu = Cpu { sp: 0x0001, pc: 0, ..Cpu::default() };
        run(&[0xf8, 0xff], &mut cpu);
        assert_eq!((cpu.hl(), cpu.f), (0x0000, FH | FC));
        // POP AF masks the low nibble
        let mut cpu = Cpu { sp: 0x9000, pc: 0, ..Cpu::default() };
        let mut bus = FlatBus::new();
        bus.mem[0] = 0xf1;
        bus.mem[0x9000] = 0xff;
        bus.mem[0x9001] = 0x12;
        step(&mut cpu, &mut bus);
        assert_eq!((cpu.a, cpu.f, cpu.sp), (0x12, 0xf0, 0x9002));
        // PUSH writes the high byte first, at SP-1
        let mut cpu = Cpu { sp: 0x0001, b: 0xab, c: 0xcd, pc: 0x200, ..Cpu::default() };
        let (_, bus) = run(&[0xc5], &mut cpu);
        assert_eq!(bus.writes, vec![(0x0000, 0xab), (0xffff, 0xcd)]);
        assert_eq!(cpu.sp, 0xffff);
        // JR backwards across 0
        let mut cpu = Cpu { pc: 0x0000, ..Cpu::default() };
        run(&[0x18, 0xfb], &mut cpu);
        assert_eq!(cpu.pc, 0xfffd);
        // CALL pushes the address of the next instruction
        let mut cpu = Cpu { pc: 0x1234, sp: 0xd000, ..Cpu::default() };
        let (o, bus) = run(&[0xcd, 0x78, 0x56], &mut cpu);
        assert_eq!(bus.writes, vec![(0xcfff, 0x12), (0xcffe, 0x37)]);
        assert_eq!((cpu.pc, cpu.sp, o.cycles), (0x5678, 0xcffe, 6));
        // SBC half-carry with carry-in
        let mut cpu = Cpu { a: 0x10, f: FC, ..Cpu::default() };
        alu(&mut cpu, 3, 0x0f);
        assert_eq!((cpu.a, cpu.f), (0x00, FZ | FN | FH));
        // ADC 0xff + 0x00 + carry
        let mut cpu = Cpu { a: 0xff, f: FC, ..Cpu::default() };
        alu(&mut cpu, 1, 0x00);
        assert_eq!((cpu.a, cpu.f), (0x00, FZ | FH | FC));
        // ADD HL keeps Z
        let mut cpu = Cpu { h: 0x0f, l: 0xff, b: 0, c: 1, f: FZ | FN, pc: 0, ..Cpu::default() };
        run(&[0x09], &mut cpu);
        assert_eq!((cpu.hl(), cpu.f), (0x1000, FZ | FH));
        // RLA clears Z even when the result is zero; RL r sets it
        let mut cpu = Cpu { a: 0x80, pc: 0, ..Cpu::default() };
        run(&[0x17], &mut cpu);
        assert_eq!((cpu.a, cpu.f), (0x00, FC));
        let mut cpu = Cpu { a: 0x80, pc: 0, ..Cpu::default() };
        run(&[0xcb, 0x17], &mut cpu);
        assert_eq!((cpu.a, cpu.f), (0x00, FZ | FC));
        // CCF / SCF / CPL
        let mut cpu = Cpu { f: 0xf0, pc: 0, ..Cpu::default() };
        run(&[0x3f], &mut cpu);
        assert_eq!(cpu.f, FZ);
        let mut cpu = Cpu { f: 0xe0, pc: 0, ..Cpu::default() };
        run(&[0x37], &mut cpu);
        assert_eq!(cpu.f, FZ | FC);
        // HL+ / HL- wrap
        let mut cpu = Cpu { h: 0xff, l: 0xff, a: 7, pc: 0, ..Cpu::default() };
        let (_, bus) = run(&[0x22], &mut cpu);
        assert_eq!((cpu.hl(), bus.writes[0]), (0x0000, (0xffff, 7)));
        let mut cpu = Cpu { h: 0, l: 0, pc: 0x10, ..Cpu::default() };
        run(&[0x3a], &mut cpu);
        assert_eq!(cpu.hl(), 0xffff);
        // LD (nn),SP writes low then high
        let mut cpu = Cpu { sp: 0xbeef, pc: 0, ..Cpu::default() };
        let (_, bus) = run(&[0x08, 0xff, 0xff], &mut cpu);
        assert_eq!(bus.writes, vec![(0xffff, 0xef), (0x0000, 0xbe)]);
        // RST
        let mut cpu = Cpu { sp: 0xfffe, pc: 0x0150, ..Cpu::default() };
        let (o, bus) = run(&[0xef], &mut cpu);
        assert_eq!((cpu.pc, o.cycles), (0x28, 4));
        assert_eq!(bus.writes, vec![(0xfffd, 0x01), (0xfffc, 0x51)]);
        // BIT leaves C, sets H
        let mut cpu = Cpu { h: 0x80, f: FC | FN, pc: 0, ..Cpu::default() };
        run(&[0xcb, 0x7c], &mut cpu);
        assert_eq!(cpu.f, FH | FC);
        // DAA after 0x9a
        let mut cpu = Cpu { a: 0x9a, ..Cpu::default() };
        daa(&mut cpu);
        assert_eq!((cpu.a, cpu.f), (0x00, FZ | FC));
    }
}
