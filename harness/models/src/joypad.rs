//! Reference model of the joypad register P1 (0xFF00) and the joypad
//! interrupt, written from the joypad documentation: a 2x4 button matrix, two
//! select lines (bit 4 = directions, bit 5 = actions, selected when written 0),
//! four input lines that read 0 when a pressed button of a selected group pulls
//! them low, and an interrupt request whenever an input line goes high -> low.

/// button index: 0 A, 1 B, 2 Select, 3 Start (action group, lines 0..3),
///               4 Right, 5 Left, 6 Up, 7 Down (direction group, lines 0..3)
#[derive(Clone, Copy, Debug, PartialEq, Eq, Default)]
pub struct Joypad {
    /// bit i set = button i pressed
    pub buttons: u8,
    /// the two select bits as last written (bit 4, bit 5 of the written byte)
    pub select: u8,
}

impl Joypad {
    pub fn new(select: u8) -> Joypad {
        Joypad { buttons: 0, select: select & 0x30 }
    }
    /// the four input lines, bit = 1 when high (not pulled low)
    pub fn lines(&self) -> u8 {
        let mut low = 0u8;
        if self.select & 0x10 == 0 {
            low |= self.buttons >> 4;
        }
        if self.select & 0x20 == 0 {
            low |= self.buttons & 0x0f;
        }
        !low & 0x0f
    }
    /// bits 0-5 of P1
    pub fn p1(&self) -> u8 {
        self.select | self.lines()
    }
    fn falling(before: u8, after: u8) -> bool {
        before & !after & 0x0f != 0
    }
    /// returns true when the action requests the joypad interrupt
    pub fn press(&mut self, button: u8) -> bool {
        let before = self.lines();
        self.buttons |= 1 << (button & 7);
        Self::falling(before, self.lines())
    }
    pub fn release(&mut self, button: u8) -> bool {
        let before = self.lines();
        self.buttons &= !(1 << (button & 7));
        Self::falling(before, self.lines())
    }
    pub fn write(&mut self, value: u8) -> bool {
        let before = self.lines();
        self.select = value & 0x30;
        Self::falling(before, self.lines())
    }
}

#[cfg(test)]
mod tests {
    use super::*;

    #[test]
    fn matrix_and_edges() {
        let mut j = Joypad::new(0x30);
        assert_eq!(j.p1(), 0x3f);
        assert!(!j.press(1)); // B, nothing selected
        assert!(!j.write(0x20)); // directions selected: no line changes
        assert_eq!(j.p1(), 0x2f);
        assert!(j.write(0x10)); // actions selected: line 1 falls
        assert_eq!(j.p1(), 0x1d);
        // Right pressed (line 0) while directions selected, then select actions with B held:
        let mut j = Joypad::new(0x20);
        j.press(4);
        j.press(1);
        assert_eq!(j.p1(), 0x2e);
        // line 0 rises, line 1 falls: a falling line, although the nibble grows numerically
        assert!(j.write(0x10));
        assert_eq!(j.p1(), 0x1d);
        // both groups selected: Start pulls line 3 low, Down then changes nothing
        let mut j = Joypad::new(0x00);
        assert!(j.press(3));
        assert!(!j.press(7));
        assert_eq!(j.p1(), 0x07);
    }
}
