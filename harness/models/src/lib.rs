pub mod bus;
pub mod irq;
pub mod lcd;
pub mod mbc;
pub mod sm83;
pub mod timer;
