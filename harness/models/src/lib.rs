pub mod bus;
pub mod dma;
pub mod irq;
pub mod joypad;
pub mod lcd;
pub mod mbc;
pub mod sm83;
pub mod timer;
