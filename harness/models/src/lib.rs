pub mod sm83;
