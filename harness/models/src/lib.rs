pub mod mbc;
pub mod sm83;
