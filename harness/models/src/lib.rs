pub mod bus;
pub mod mbc;
pub mod sm83;
