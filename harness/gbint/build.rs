// The library source lives in /repo (see [lib] path). Cargo tracks those files
// by mtime only; the check driver exports a content hash of /repo's sources so
// that any change of content (whatever the mtimes) makes this crate dirty.
fn main() {
    println!("cargo:rerun-if-env-changed=GB_SRC_HASH");
    let h = std::env::var("GB_SRC_HASH").unwrap_or_default();
    println!("cargo:rustc-env=GB_SRC_HASH={}", h);
    println!("cargo:rustc-check-cfg=cfg(gb_dynarec_verif)");
}
