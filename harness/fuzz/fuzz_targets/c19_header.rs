#![no_main]
//! C19 adjunct: 80 header bytes + length selector through the real loader.
use libfuzzer_sys::fuzz_target;

fuzz_target!(|data: &[u8]| {
    gbcheck::engine::fuzz_init();
    if let Err(f) = gbcheck::checks::c19::fuzz_file(data) {
        gbcheck::engine::fuzz_violation("C19", &f.sig, serde_json::json!({"kind": "fuzz-bytes", "bytes": gbcheck::engine::hex(data)}), &f.detail);
    }
});
