#![no_main]
//! C20 adjunct: arbitrary bytes as a debugger input line; the oracle is the
//! reference grammar of the C20 check (totality + agreement).
use libfuzzer_sys::fuzz_target;

fuzz_target!(|data: &[u8]| {
    gbcheck::engine::fuzz_init();
    let s = String::from_utf8_lossy(data).to_string();
    if let Err(f) = gbcheck::checks::c20::fuzz_line(&s) {
        gbcheck::engine::fuzz_violation("C20", &f.sig, serde_json::json!({"kind": "line", "text": s}), &f.detail);
    }
});
