#![no_main]
//! C11 adjunct: cartridge configuration + access script; the oracle is survival
//! (a panic inside the extern bus helpers aborts the fuzzing process itself).
use libfuzzer_sys::fuzz_target;

fuzz_target!(|data: &[u8]| {
    gbcheck::engine::fuzz_init();
    if let Err(msg) = gbcheck::checks::c11::fuzz_bus(data) {
        gbcheck::engine::fuzz_violation("C11", "panic-script", serde_json::json!({"kind": "fuzz-bytes", "bytes": gbcheck::engine::hex(data)}), &msg);
    }
});
