#![no_main]
//! C01 adjunct: bytes -> placement, registers, instruction stream, terminator;
//! translated block vs interpreter (the oracle of the C01 check, inside the target).
use libfuzzer_sys::fuzz_target;

fuzz_target!(|data: &[u8]| {
    gbcheck::engine::fuzz_init();
    if let Err(f) = gbcheck::checks::c01::fuzz_block(data) {
        gbcheck::engine::fuzz_violation("C01", &f.sig, gbcheck::checks::c01::fuzz_block_json(data), &f.detail);
    }
});
