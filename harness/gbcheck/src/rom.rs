//! ROM image builder and in-memory ROM files (memfd).

use std::fs::File;
use std::os::unix::io::FromRawFd;

/// bank count declared by a ROM-size header code (documented table)
pub fn rom_banks_for_code(code: u8) -> Option<usize> {
    match code {
        0x00..=0x08 => Some(2usize << code),
        0x52 => Some(72),
        0x53 => Some(80),
        0x54 => Some(96),
        _ => None,
    }
}

/// cartridge RAM bytes declared by a RAM-size header code (documented table)
pub fn ram_bytes_for_code(code: u8) -> Option<usize> {
    match code {
        0 => Some(0),
        1 => Some(2 * 1024),
        2 => Some(8 * 1024),
        3 => Some(32 * 1024),
        4 => Some(128 * 1024),
        5 => Some(64 * 1024),
        _ => None,
    }
}

pub fn header_checksum(rom: &[u8]) -> u8 {
    let mut c = 0u8;
    for b in &rom[0x134..=0x14c] {
        c = c.wrapping_sub(*b).wrapping_sub(1);
    }
    c
}

#[derive(Clone)]
pub struct RomImage {
    pub bytes: Vec<u8>,
}

impl RomImage {
    /// A ROM of the declared size, filled with `fill`, with a valid header.
    pub fn new(cart_type: u8, rom_code: u8, ram_code: u8, fill: u8) -> RomImage {
        let banks = rom_banks_for_code(rom_code).unwrap_or(2);
        let mut bytes = vec![fill; banks * 0x4000];
        for b in &mut bytes[0x100..0x150] {
            *b = 0;
        }
        bytes[0x100] = 0x00;
        bytes[0x101] = 0xc3;
        bytes[0x102] = 0x50;
        bytes[0x103] = 0x01;
        for (i, ch) in b"VERIF".iter().enumerate() {
            bytes[0x134 + i] = *ch;
        }
        bytes[0x147] = cart_type;
        bytes[0x148] = rom_code;
        bytes[0x149] = ram_code;
        let mut r = RomImage { bytes };
        r.fix_checksum();
        r
    }
    pub fn fix_checksum(&mut self) {
        self.bytes[0x14d] = header_checksum(&self.bytes);
    }
    pub fn banks(&self) -> usize {
        self.bytes.len() / 0x4000
    }
    /// stamp every bank with its own index at a few offsets (for banking checks)
    pub fn stamp_banks(&mut self) {
        let banks = self.banks();
        for b in 0..banks {
            for off in [0x0000usize, 0x2000, 0x3ffe] {
                if b == 0 && off < 0x150 && off >= 0x100 {
                    continue;
                }
                let a = b * 0x4000 + off;
                self.bytes[a] = (b & 0xff) as u8;
                self.bytes[a + 1] = (b >> 8) as u8 ^ 0xa5;
            }
        }
        self.fix_checksum();
    }
}

/// An anonymous in-memory file holding `bytes` (never touches the disk).
pub fn memfd_with(bytes: &[u8]) -> File {
    use std::io::Write;
    let fd = unsafe { libc::memfd_create(b"verif-rom\0".as_ptr() as *const libc::c_char, 0) };
    assert!(fd >= 0, "memfd_create failed");
    let mut f = unsafe { File::from_raw_fd(fd) };
    f.write_all(bytes).unwrap();
    f
}

/// An in-memory file of `len` bytes whose first bytes are `prefix` (sparse).
pub fn memfd_sparse(prefix: &[u8], len: usize) -> File {
    use std::io::Write;
    let fd = unsafe { libc::memfd_create(b"verif-rom\0".as_ptr() as *const libc::c_char, 0) };
    assert!(fd >= 0, "memfd_create failed");
    let mut f = unsafe { File::from_raw_fd(fd) };
    f.write_all(&prefix[..prefix.len().min(len)]).unwrap();
    f.set_len(len as u64).unwrap();
    f
}

pub fn fd_path(f: &File) -> String {
    use std::os::unix::io::AsRawFd;
    format!("/proc/self/fd/{}", f.as_raw_fd())
}
