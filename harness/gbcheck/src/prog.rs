//! Generator of structured, terminating guest programs (DESIGN.md appendix A)
//! and a small assembler. A program is described by a `ProgSpec` made of plain
//! integers and vectors (so proptest can shrink it fragment-wise) and assembled
//! into a complete MBC1 ROM image.
//!
//! Constraints that keep programs inside the input domain of the properties:
//! only defined opcodes; stores never target 0x0000-0x7FFF except the bank
//! register writes of far-call trampolines, which live in bank 0; no
//! instruction straddles a fetch-region end; HALT only with a running enabled
//! interrupt source.

use crate::rom::RomImage;
use proptest::prelude::*;
use serde::{Deserialize, Serialize};

/// one register-only data instruction: selector into the table + immediates
pub type AluSpec = (u16, u8, u8);

#[derive(Clone, Debug, Serialize, Deserialize)]
pub enum Frag {
    Alu(Vec<AluSpec>),
    /// pointer selector, memory operations
    Mem(u16, Vec<(u8, u8)>),
    /// counted loop: iterations, body, JP instead of JR
    Loop(u8, Vec<AluSpec>, bool),
    /// CALL (cc) to bank-0 subroutine k
    Call(u8, u8),
    Rst(u8),
    PushPop(Vec<u8>),
    JumpTable(u8),
    /// far call through a bank-0 trampoline: bank, slot
    FarCall(u8, u8),
    RamCode(u8),
    Dma(u8),
    TimerCfg(u8, u8, u8),
    StatCfg(u8, u8),
    IrqCfg(u8),
    EiHalt(u8),
    DiSection(Vec<AluSpec>),
    Serial(Vec<(u8, u8, u8)>),
    /// EI or DI alone
    Ime(bool),
    /// STOP with a timer wake-up
    Stop(u8),
    /// call a bank-0 routine that runs through 0x3FFF into slot 0 of the mapped bank
    FallThrough,
    /// write LCDC (any value, the LCD-enable bit included), scroll and window registers
    LcdCfg(u8, u8, u8),
    /// write the MBC1 mode register and the upper bank bits (from bank-0 code)
    MbcMode(u8, u8),
    /// stack-pointer arithmetic: ADD SP,-n; LD HL,SP+e; LD (nn),SP; LD SP,HL; ADD SP,+n
    SpOps(u8, u16),
    /// start an OAM DMA inline (no wait loop) and carry on while it runs:
    /// page, what follows (0 register code, 1 EI;HALT with a timer wake-up, 2 STOP with a
    /// timer wake-up, 3 one long straight block, 4 a counted delay loop of 8 + t%32 short blocks
    /// and then one long straight block, 5 the delay loop and then EI;HALT), timer phase /
    /// delay, register code
    DmaBg(u8, u8, u8, Vec<AluSpec>),
    /// one long straight-line block of register instructions (no terminator inside; up to 280
    /// of them, so that a block can be worth more than 256 machine cycles)
    LongBlock(Vec<AluSpec>),
    /// write the P1 select bits, read P1 back and store it in high RAM
    Joy(u8, u8),
    /// STOP whose second byte is arbitrary, with a timer wake-up
    Stop2(u8, u8),
    /// write IF from software
    IfWrite(u8),
    /// EI; NOP; HALT woken by a STAT interrupt (mode 2 always enabled, plus the given mask)
    HaltStat(u8),
    /// write DIV (any value resets the divider), then read DIV and TIMA into high RAM
    DivWrite(u8),
}

/// relative weights of the device fragments (0 = the default mix)
#[derive(Clone, Copy, Debug, Default)]
pub struct Focus {
    pub timer: u32,
    pub lcd: u32,
    pub dma: u32,
    pub joy: u32,
    pub serial: u32,
    pub irq: u32,
}

#[derive(Clone, Debug, Serialize, Deserialize)]
pub struct Isr {
    pub kind: u8,
    pub body: Vec<AluSpec>,
}

#[derive(Clone, Debug, Serialize, Deserialize)]
pub struct ProgSpec {
    pub sp_hram: bool,
    pub ie: u8,
    pub tac: u8,
    pub tma: u8,
    pub stat: u8,
    pub lyc: u8,
    pub lcdc: u8,
    pub ei: bool,
    pub frags: Vec<Frag>,
    pub isrs: Vec<Isr>,
    pub subs: Vec<Vec<AluSpec>>,
    pub far_seed: u16,
}

#[derive(Clone, Debug, Default)]
pub struct ProgInfo {
    pub uses_halt: bool,
    pub uses_dma: bool,
    pub uses_ram_code: bool,
    pub uses_far_call: bool,
    pub uses_timer: bool,
    pub uses_stat: bool,
    pub uses_serial: bool,
    pub uses_stop: bool,
    pub main_loop: u16,
    pub code_end: u16,
}

pub struct Asm {
    pub bytes: Vec<u8>,
    pub org: usize,
}

impl Asm {
    fn new(org: usize) -> Asm {
        Asm { bytes: Vec::new(), org }
    }
    pub fn pc(&self) -> u16 {
        (self.org + self.bytes.len()) as u16
    }
    fn b(&mut self, v: u8) {
        self.bytes.push(v)
    }
    fn bs(&mut self, v: &[u8]) {
        self.bytes.extend_from_slice(v)
    }
    fn w(&mut self, v: u16) {
        self.bytes.push(v as u8);
        self.bytes.push((v >> 8) as u8);
    }
    fn ld_a(&mut self, v: u8) {
        self.bs(&[0x3e, v])
    }
    fn ldh_a(&mut self, off: u8) {
        self.bs(&[0xe0, off])
    }
    fn ld_hl(&mut self, v: u16) {
        self.b(0x21);
        self.w(v)
    }
    fn call(&mut self, a: u16) {
        self.b(0xcd);
        self.w(a)
    }
    fn jp(&mut self, a: u16) {
        self.b(0xc3);
        self.w(a)
    }
}

/// defined, non-terminating, register-only (no memory access, SP untouched) first bytes
pub fn alu_table() -> Vec<u8> {
    let mut t = Vec::new();
    for op in 0..=255u8 {
        let ok = match op {
            0x00 => true,
            0x01 | 0x11 | 0x21 => true,                       // LD rr,nn
            0x03 | 0x13 | 0x23 | 0x0b | 0x1b | 0x2b => true,  // INC/DEC rr
            0x09 | 0x19 | 0x29 | 0x39 => true,                // ADD HL,rr
            0x07 | 0x0f | 0x17 | 0x1f | 0x27 | 0x2f | 0x37 | 0x3f => true,
            0xf8 => true, // LD HL,SP+e8
            0xcb => true,
            _ => {
                let x = op >> 6;
                let y = (op >> 3) & 7;
                let z = op & 7;
                match x {
                    0 => (z == 4 || z == 5 || z == 6) && y != 6,                  // INC r / DEC r / LD r,n (not (HL))
                    1 => z != 6 && y != 6,                                       // LD r,r'
                    2 => z != 6,                                                 // ALU A,r
                    _ => z == 6,                                                 // ALU A,n
                }
            }
        };
        if ok {
            t.push(op);
            if op == 0xcb {
                for _ in 0..12 {
                    t.push(op);
                }
            }
        }
    }
    t
}

fn emit_alu(a: &mut Asm, table: &[u8], ops: &[AluSpec]) {
    for (sel, i1, i2) in ops {
        let op = table[(*sel as usize * table.len()) >> 16];
        a.b(op);
        if op == 0xcb {
            // CB page on registers only (z != 6)
            let cb = if *i1 & 7 == 6 { *i1 ^ 1 } else { *i1 };
            a.b(cb);
            continue;
        }
        match models::sm83::length(op) {
            2 => a.b(*i1),
            3 => {
                a.b(*i1);
                a.b(*i2);
            }
            _ => {}
        }
    }
}

/// replace instructions that write B (the loop counter) by NOPs of the same length
fn keep_b(code: &[u8]) -> Vec<u8> {
    let mut out = Vec::new();
    let mut i = 0;
    while i < code.len() {
        let op = code[i];
        let n = models::sm83::length(op) as usize;
        let writes_b = match op {
            0x01 | 0x03 | 0x0b | 0x04 | 0x05 | 0x06 => true,
            0x40..=0x47 => true,
            0xcb => code[i + 1] & 7 == 0 && !(0x40..0x80).contains(&code[i + 1]),
            _ => false,
        };
        if writes_b {
            out.extend(std::iter::repeat(0x00).take(n));
        } else {
            out.extend_from_slice(&code[i..i + n]);
        }
        i += n;
    }
    out
}

/// RAM windows generated pointers may use (start, length); away from the stack,
/// the RAM routines and the bytes the ISRs count in
const WINDOWS: [(u16, u16); 7] = [(0xc200, 0x0d00), (0xd000, 0x0e00), (0x8000, 0x1f00), (0xa000, 0x1f00), (0xfe00, 0x0080), (0xffa0, 0x0040), (0xc000, 0x00e0)];

fn pointer(sel: u16) -> u16 {
    let (base, len) = WINDOWS[(sel as usize * WINDOWS.len()) >> 16];
    if len <= 0x40 {
        base + 0x20
    } else {
        base + 0x20 + (sel.wrapping_mul(40503) % (len - 0x40))
    }
}

const SUB_BASE: u16 = 0x1000;
const SUB_STRIDE: u16 = 0x40;
pub const NSUBS: usize = 6;
const RAM_ROUTINE_SRC: u16 = 0x0e00;
const RAM_ROUTINES: [(u16, u16); 4] = [(0xc100, 0), (0xc140, 1), (0xde80, 2), (0xff90, 3)];
const DMA_ROUTINE: u16 = 0xff80;

pub fn assemble(p: &ProgSpec) -> (RomImage, ProgInfo) {
    let table = alu_table();
    // MBC1 + RAM + battery, 64 ROM banks (upper bank bits and the mode register matter), 32 KiB RAM
    let mut rom = RomImage::new(0x03, 0x05, 0x03, 0x00);
    let mut info = ProgInfo::default();
    let put = |rom: &mut RomImage, at: usize, bytes: &[u8]| {
        rom.bytes[at..at + bytes.len()].copy_from_slice(bytes);
    };
    // RST targets: one harmless register instruction + RET
    for v in 0..8usize {
        let op = [0x3cu8, 0x04, 0x0c, 0x14, 0x1c, 0x2f, 0x37, 0x3f][v];
        put(&mut rom, v * 8, &[op, 0xc9]);
    }
    // interrupt vectors -> ISRs
    let mut isr_addr = 0x0f00u16;
    for k in 0..5usize {
        let isr = p.isrs.get(k).cloned().unwrap_or(Isr { kind: 0, body: vec![] });
        let mut a = Asm::new(isr_addr as usize);
        match isr.kind % 6 {
            0 => a.b(0xd9),
            1 => {
                a.b(0xf5);
                emit_alu(&mut a, &table, &isr.body);
                a.b(0xf1);
                a.b(0xd9);
            }
            2 => {
                // count in HRAM
                a.b(0xf5);
                a.b(0xe5);
                a.ld_hl(0xfff0 + k as u16);
                a.b(0x34);
                a.b(0xe1);
                a.b(0xf1);
                a.b(0xd9);
            }
            3 => {
                a.b(0xfb);
                emit_alu(&mut a, &table, &isr.body);
                a.b(0xc9);
            }
            4 => {
                a.b(0xf5);
                a.ld_a(0x40 + k as u8);
                a.ldh_a(0x01);
                a.ld_a(0x81);
                a.ldh_a(0x02);
                a.b(0xf1);
                a.b(0xd9);
            }
            _ => {
                emit_alu(&mut a, &table, &isr.body);
                a.b(0xd9);
            }
        }
        let mut v = Asm::new(0x40 + 8 * k);
        v.jp(isr_addr);
        put(&mut rom, 0x40 + 8 * k, &v.bytes);
        put(&mut rom, isr_addr as usize, &a.bytes);
        isr_addr += 0x30;
        assert!(a.bytes.len() <= 0x30);
    }
    // bank-0 subroutines
    for k in 0..NSUBS {
        let mut a = Asm::new((SUB_BASE + SUB_STRIDE * k as u16) as usize);
        let body = p.subs.get(k).cloned().unwrap_or_default();
        let n = body.len().min(12);
        emit_alu(&mut a, &table, &body[..n / 2]);
        // conditional early return, then the rest
        a.b([0xc0, 0xc8, 0xd0, 0xd8][k % 4]);
        emit_alu(&mut a, &table, &body[n / 2..n]);
        a.b(0xc9);
        assert!(a.bytes.len() <= SUB_STRIDE as usize);
        put(&mut rom, a.org, &a.bytes);
    }
    // far subroutines: every bank holds different code at the same slot addresses
    for bank in 1..rom.banks() {
        for slot in 0..8usize {
            let mut a = Asm::new(0x4000 + slot * 0x40);
            if slot == 0 {
                // two one-byte instructions first: the fall-through routine may use them as operand bytes
                a.b([0x00u8, 0x3c, 0x04, 0x0c, 0x14, 0x1c, 0x24, 0x2c][bank % 8]);
                a.b([0x2fu8, 0x37, 0x3f, 0x07, 0x0f, 0x17, 0x1f, 0x00][bank % 8]);
            }
            let mut x = (p.far_seed as u64) << 16 | (bank as u64) << 8 | slot as u64;
            let mut body = Vec::new();
            for _ in 0..(2 + (bank + slot) % 6) {
                x = crate::engine::splitmix(x);
                body.push((x as u16, (x >> 16) as u8, (x >> 24) as u8));
            }
            emit_alu(&mut a, &table, &body);
            // leave a mark of the bank in D, then maybe loop once, then return
            a.bs(&[0x16, bank as u8]);
            if slot % 3 == 1 {
                a.bs(&[0x1e, 0x03, 0x1d, 0x20, 0xfd]); // LD E,3; DEC E; JR NZ,-3
            }
            if slot % 4 == 2 {
                a.b(0xc8); // RET Z
            }
            a.b(0xc9);
            assert!(a.bytes.len() <= 0x40);
            put(&mut rom, bank * 0x4000 + slot * 0x40, &a.bytes);
        }
    }
    // a bank-0 routine without terminator that runs into the switchable bank; in
    // three of four programs its last instruction straddles 0x3FFF/0x4000 (its
    // operand bytes then come from whichever bank is mapped)
    put(&mut rom, 0x3ff8, &[0x3c, 0x04, 0x0c, 0x14, 0x1c, 0x24, 0x2c, 0x3c]);
    match p.far_seed & 3 {
        1 => put(&mut rom, 0x3fff, &[0x06]),       // LD B,n    : n at 0x4000, continues at 0x4001
        2 => put(&mut rom, 0x3ffe, &[0x01, 0x5a]), // LD BC,nn  : high byte at 0x4000, continues at 0x4001
        3 => put(&mut rom, 0x3fff, &[0x11]),       // LD DE,nn  : nn at 0x4000/0x4001, continues at 0x4002
        _ => {}
    }
    // RAM routine images (copied by the init code)
    let mut images: Vec<Vec<u8>> = Vec::new();
    for (_, k) in RAM_ROUTINES {
        let mut a = Asm::new(0);
        let body = p.subs.get(k as usize % p.subs.len().max(1)).cloned().unwrap_or_default();
        let n = body.len().min(5);
        emit_alu(&mut a, &table, &body[..n]);
        a.bs(&[0x06, 0x02, 0x05, 0x20, 0xfd]); // LD B,2; DEC B; JR NZ,-3
        a.b(0xc9);
        if a.bytes.len() > 0x10 {
            a.bytes = vec![0x3c, 0xc9];
        }
        images.push(a.bytes);
    }
    // DMA helper in HRAM: LD A,B; LDH (46),A; LD A,0x29; DEC A; JR NZ,-3; RET
    let dma_img: Vec<u8> = vec![0x78, 0xe0, 0x46, 0x3e, 0x29, 0x3d, 0x20, 0xfd, 0xc9];
    let mut src = RAM_ROUTINE_SRC as usize;
    let mut copies: Vec<(u16, u16, u8)> = Vec::new();
    for (i, img) in images.iter().enumerate() {
        put(&mut rom, src, img);
        copies.push((src as u16, RAM_ROUTINES[i].0, img.len() as u8));
        src += 0x20;
    }
    put(&mut rom, src, &dma_img);
    copies.push((src as u16, DMA_ROUTINE, dma_img.len() as u8));
    // entry
    put(&mut rom, 0x100, &[0x00, 0xc3, 0x50, 0x01]);
    let mut a = Asm::new(0x150);
    a.b(0xf3);
    a.b(0x31);
    a.w(if p.sp_hram { 0xfffe } else { 0xdff0 });
    // enable cartridge RAM
    a.ld_a(0x0a);
    a.b(0xea);
    a.w(0x0000);
    for (s, d, n) in &copies {
        a.ld_hl(*s);
        a.b(0x11);
        a.w(*d);
        a.bs(&[0x06, *n]);
        let l = a.pc();
        a.bs(&[0x2a, 0x12, 0x13, 0x05]);
        let rel = (l as i32 - (a.pc() as i32 + 2)) as i8;
        a.bs(&[0x20, rel as u8]);
    }
    a.ld_a(p.lcdc | 0x80);
    a.ldh_a(0x40);
    a.ld_a(p.stat & 0x78);
    a.ldh_a(0x41);
    a.ld_a(p.lyc);
    a.ldh_a(0x45);
    a.ld_a(p.tma);
    a.ldh_a(0x06);
    a.ld_a(p.tac & 7);
    a.ldh_a(0x07);
    a.ld_a(0xe4);
    a.ldh_a(0x47);
    a.ld_a(0);
    a.ldh_a(0x0f);
    a.ld_a(p.ie & 0x1f);
    a.ldh_a(0xff);
    if p.tac & 4 != 0 && p.ie & 4 != 0 {
        info.uses_timer = true;
    }
    if p.stat & 0x78 != 0 && p.ie & 2 != 0 {
        info.uses_stat = true;
    }
    if p.ei {
        a.b(0xfb);
    }
    info.main_loop = a.pc();
    let main = a.pc();
    for f in &p.frags {
        match f {
            Frag::Alu(ops) => emit_alu(&mut a, &table, ops),
            Frag::Mem(sel, ops) => {
                let ptr = pointer(*sel);
                a.ld_hl(ptr);
                a.b(0x01);
                a.w(pointer(sel.wrapping_mul(31).wrapping_add(7)));
                a.b(0x11);
                a.w(pointer(sel.wrapping_mul(17).wrapping_add(3)));
                for (k, v) in ops.iter().take(12) {
                    match k % 22 {
                        0 => a.bs(&[0x36, *v]),                                   // LD (HL),n
                        1 => a.b(0x70 + (*v & 7).min(5)),                         // LD (HL),r
                        2 => a.b(0x7e),                                           // LD A,(HL)
                        3 => a.b(0x86 + ((*v & 7) << 3)),                         // ALU A,(HL)
                        4 => a.b(0x34),
                        5 => a.b(0x35),
                        6 => a.bs(&[0xcb, (*v & 0xf8) | 6]),                      // CB op (HL)
                        7 => a.b(0x22),
                        8 => a.b(0x32),
                        9 => a.b(0x2a),
                        10 => a.b(0x3a),
                        11 => a.b(0x02),
                        12 => a.b(0x12),
                        13 => a.b(0x0a),
                        14 => a.b(0x1a),
                        15 => a.bs(&[0xe0, 0xa0 + (*v & 0x3f)]),                  // LDH (n),A in HRAM window
                        16 => a.bs(&[0xf0, 0xa0 + (*v & 0x3f)]),
                        17 => {
                            a.b(0xea);
                            a.w(pointer((*v as u16) << 8 | *k as u16));
                        }
                        18 => {
                            a.b(0xfa);
                            a.w(pointer((*v as u16) << 8 | *k as u16));
                        }
                        19 => a.bs(&[0x0e, 0xa0 + (*v & 0x3f), 0xe2]),            // LD C,n; LD (C),A
                        20 => a.bs(&[0x0e, 0x40 + (*v & 0x0b), 0xf2]),            // LD C,n; LD A,(C) from LCD registers
                        _ => a.bs(&[0xf0, [0x04u8, 0x05, 0x0f, 0x41, 0x44, 0x00, 0x4a, 0xff][(*v & 7) as usize]]), // LDH A,(io)
                    }
                }
            }
            Frag::Loop(n, body, jp) => {
                a.bs(&[0x06, (*n % 6) + 1]);
                let l = a.pc();
                let k = body.len().min(6);
                let mut tmp = Asm::new(0);
                emit_alu(&mut tmp, &table, &body[..k]);
                a.bs(&keep_b(&tmp.bytes));
                a.b(0x05);
                if *jp {
                    a.b(0xc2);
                    a.w(l);
                } else {
                    let rel = (l as i32 - (a.pc() as i32 + 2)) as i8;
                    a.bs(&[0x20, rel as u8]);
                }
            }
            Frag::Call(k, cc) => {
                let target = SUB_BASE + SUB_STRIDE * (*k as u16 % NSUBS as u16);
                let op = [0xcd, 0xc4, 0xcc, 0xd4, 0xdc][(*cc % 5) as usize];
                a.b(op);
                a.w(target);
            }
            Frag::Rst(v) => a.b(0xc7 | ((*v & 7) << 3)),
            Frag::PushPop(rs) => {
                let rs: Vec<u8> = rs.iter().take(4).map(|r| r & 3).collect();
                for r in &rs {
                    a.b(0xc5 | (r << 4));
                }
                for r in rs.iter().rev() {
                    // pop into a rotated register so that values move (AF gets masked)
                    a.b(0xc1 | (((r + 1) & 3) << 4));
                }
            }
            Frag::JumpTable(skip) => {
                let here = a.pc();
                let target = here + 4 + (*skip % 4) as u16;
                a.ld_hl(target);
                a.b(0xe9);
                for _ in 0..(*skip % 4) {
                    a.b(0x00);
                }
            }
            Frag::FarCall(bank, slot) => {
                info.uses_far_call = true;
                let bank = 1 + (*bank as usize % (rom.banks() - 1));
                a.ld_a((bank >> 5) as u8);
                a.b(0xea);
                a.w(0x4000 + (*slot as u16 & 0x1f) * 0x80);
                a.ld_a((bank & 0x1f) as u8);
                a.b(0xea);
                a.w(0x2000 + (*slot as u16 & 0x1f) * 0x100);
                a.call(0x4000 + (*slot as u16 % 8) * 0x40);
                a.ld_a(0);
                a.b(0xea);
                a.w(0x5fff);
                a.ld_a(1);
                a.b(0xea);
                a.w(0x2100);
            }
            Frag::RamCode(k) => {
                info.uses_ram_code = true;
                a.call(RAM_ROUTINES[(*k % 4) as usize].0);
            }
            Frag::Dma(page) => {
                info.uses_dma = true;
                let pages = [0xc0u8, 0xc3, 0xd0, 0x80, 0x90, 0x00, 0x10, 0x40, 0x7f, 0xa0, 0xdd];
                a.bs(&[0x06, pages[*page as usize % pages.len()]]);
                a.call(DMA_ROUTINE);
            }
            Frag::TimerCfg(tac, tma, tima) => {
                a.ld_a(*tma);
                a.ldh_a(0x06);
                a.ld_a(*tima);
                a.ldh_a(0x05);
                a.ld_a(*tac & 7);
                a.ldh_a(0x07);
                if *tac & 4 != 0 {
                    info.uses_timer = true;
                }
            }
            Frag::StatCfg(mask, lyc) => {
                a.ld_a(*lyc % 160);
                a.ldh_a(0x45);
                a.ld_a((*mask & 0x0f) << 3);
                a.ldh_a(0x41);
                if *mask & 0x0f != 0 {
                    info.uses_stat = true;
                }
            }
            Frag::IrqCfg(ie) => {
                a.ld_a(*ie & 0x1f);
                a.ldh_a(0xff);
            }
            Frag::EiHalt(t) => {
                info.uses_halt = true;
                info.uses_timer = true;
                // a timer overflow within (16 - t%16) * 16 clocks
                a.ld_a(0xf0 | (*t & 0x0f));
                a.ldh_a(0x05);
                a.ld_a(0x05);
                a.ldh_a(0x07);
                a.bs(&[0xf0, 0xff, 0xf6, 0x04, 0xe0, 0xff]); // IE |= timer
                a.b(0xfb);
                a.b(0x76);
                a.b(0x00);
            }
            Frag::Stop(t) => {
                info.uses_stop = true;
                info.uses_timer = true;
                a.ld_a(0xf8 | (*t & 0x07));
                a.ldh_a(0x05);
                a.ld_a(0x05);
                a.ldh_a(0x07);
                a.bs(&[0xf0, 0xff, 0xf6, 0x04, 0xe0, 0xff]);
                a.b(0xfb);
                a.bs(&[0x10, 0x00]);
            }
            Frag::DiSection(body) => {
                a.b(0xf3);
                emit_alu(&mut a, &table, &body[..body.len().min(8)]);
                a.b(0xfb);
            }
            Frag::Serial(ws) => {
                info.uses_serial = true;
                for (sb, sc, form) in ws.iter().take(6) {
                    match form % 5 {
                        0 => {
                            a.ld_a(*sb);
                            a.ldh_a(0x01);
                            a.ld_a(*sc);
                            a.ldh_a(0x02);
                        }
                        1 => {
                            a.ld_a(*sb);
                            a.bs(&[0x0e, 0x01, 0xe2]);
                            a.ld_a(*sc);
                            a.bs(&[0x0e, 0x02, 0xe2]);
                        }
                        2 => {
                            a.ld_hl(0xff01);
                            a.bs(&[0x36, *sb, 0x23, 0x36, *sc]);
                        }
                        3 => {
                            a.ld_a(*sb);
                            a.b(0xea);
                            a.w(0xff01);
                            a.ld_a(*sc);
                            a.b(0xea);
                            a.w(0xff02);
                        }
                        _ => {
                            // 16-bit store: SB then SC in one instruction pair via LD (HL+)
                            a.ld_hl(0xff01);
                            a.ld_a(*sb);
                            a.b(0x22);
                            a.ld_a(*sc);
                            a.b(0x77);
                        }
                    }
                }
            }
            Frag::Ime(on) => a.b(if *on { 0xfb } else { 0xf3 }),
            Frag::LcdCfg(lcdc, a1, a2) => {
                a.ld_a(*lcdc);
                a.ldh_a(0x40);
                a.ld_a(*a1);
                a.ldh_a(0x42 + (*a2 & 1));
                a.ld_a(*a2);
                a.ldh_a(0x4a + (*a1 & 1));
            }
            Frag::MbcMode(mode, upper) => {
                info.uses_far_call = true;
                // upper bits first, the mode register last: the mapped bank changes with the last write
                a.ld_a(*upper & 3);
                a.b(0xea);
                a.w(0x4000 + (*mode as u16) * 0x20);
                if *mode & 4 != 0 {
                    // the two register writes in different blocks
                    a.bs(&[0x18, 0x00]);
                }
                a.ld_a(*mode & 1);
                a.b(0xea);
                a.w(0x6000 + (*upper as u16) * 0x20);
                if *mode & 2 != 0 {
                    // and run into the switchable bank right away
                    a.call(0x3ff8);
                }
            }
            Frag::SpOps(n, sel) => {
                let n = 2 + 2 * (*n % 8);
                a.bs(&[0xe8, (n as i8).wrapping_neg() as u8]);
                a.bs(&[0xf8, n / 2]);
                a.b(0x08);
                a.w(pointer(*sel));
                a.bs(&[0xf8, 0x00, 0xf9]);
                a.bs(&[0xe8, n]);
            }
            Frag::FallThrough => {
                info.uses_far_call = true;
                a.call(0x3ff8);
            }
            Frag::DmaBg(page, follow, t, body) => {
                info.uses_dma = true;
                let pages = [0xc0u8, 0xc3, 0xd0, 0x80, 0x90, 0x00, 0x10, 0x40, 0x7f, 0xa0, 0xdd, 0xc1, 0xd5];
                a.ld_a(pages[*page as usize % pages.len()]);
                a.ldh_a(0x46);
                let follow = *follow % 6;
                if follow >= 4 {
                    // LD B,n; DEC B; JR NZ,-3 : n blocks of 4 machine cycles
                    // (the transfer is then between a quarter and all of the way through)
                    a.bs(&[0x06, 8 + (*t % 32), 0x05, 0x20, 0xfd]);
                }
                match follow {
                    0 => emit_alu(&mut a, &table, &body[..body.len().min(12)]),
                    1 | 5 => {
                        info.uses_halt = true;
                        info.uses_timer = true;
                        a.ld_a(0xf0 | (*t & 0x0f));
                        a.ldh_a(0x05);
                        a.ld_a(0x05);
                        a.ldh_a(0x07);
                        a.bs(&[0xf0, 0xff, 0xf6, 0x04, 0xe0, 0xff]);
                        a.b(0xfb);
                        a.b(0x76);
                        a.b(0x00);
                    }
                    2 => {
                        info.uses_stop = true;
                        info.uses_timer = true;
                        a.ld_a(0xf8 | (*t & 0x07));
                        a.ldh_a(0x05);
                        a.ld_a(0x05);
                        a.ldh_a(0x07);
                        a.bs(&[0xf0, 0xff, 0xf6, 0x04, 0xe0, 0xff]);
                        a.b(0xfb);
                        a.bs(&[0x10, 0x00]);
                    }
                    3 => emit_alu(&mut a, &table, &body[..body.len().min(90)]),
                    _ => {
                        // at least 88 instructions in one block, whatever the generated length
                        let mut long: Vec<AluSpec> = body[..body.len().min(90)].to_vec();
                        let mut k = 0usize;
                        while long.len() < 88 {
                            let next = if body.is_empty() { (0u16, 0u8, 0u8) } else { body[k % body.len()] };
                            long.push(next);
                            k += 1;
                        }
                        emit_alu(&mut a, &table, &long);
                    }
                }
            }
            // up to 280 instructions: one block worth more than 256 machine cycles
            Frag::LongBlock(body) => emit_alu(&mut a, &table, &body[..body.len().min(280)]),
            Frag::Joy(sel, slot) => {
                a.ld_a(*sel & 0x30);
                a.ldh_a(0x00);
                a.bs(&[0xf0, 0x00]);
                a.ldh_a(0xa0 + (*slot & 0x3f));
            }
            Frag::Stop2(t, second) => {
                info.uses_stop = true;
                info.uses_timer = true;
                a.ld_a(0xf8 | (*t & 0x07));
                a.ldh_a(0x05);
                a.ld_a(0x05);
                a.ldh_a(0x07);
                a.bs(&[0xf0, 0xff, 0xf6, 0x04, 0xe0, 0xff]);
                a.b(0xfb);
                a.bs(&[0x10, *second]);
            }
            Frag::IfWrite(v) => {
                a.ld_a(*v & 0x1f);
                a.ldh_a(0x0f);
            }
            Frag::DivWrite(v) => {
                a.ld_a(*v);
                a.ldh_a(0x04);
                a.bs(&[0xf0, 0x04]);
                a.ldh_a(0xa0 + (*v & 0x3f));
                a.bs(&[0xf0, 0x05]);
                a.ldh_a(0xa0 + ((*v >> 1) & 0x3f));
            }
            Frag::HaltStat(mask) => {
                info.uses_halt = true;
                info.uses_stat = true;
                a.ld_a(0x20 | ((*mask & 0x0f) << 3));
                a.ldh_a(0x41);
                a.bs(&[0xf0, 0xff, 0xf6, 0x02, 0xe0, 0xff]); // IE |= STAT
                a.b(0xfb);
                a.b(0x00);
                a.b(0x76);
                a.b(0x00);
            }
        }
        if a.pc() > 0x0d00 {
            break;
        }
    }
    a.jp(main);
    info.code_end = a.pc();
    put(&mut rom, a.org, &a.bytes);
    rom.fix_checksum();
    (rom, info)
}

pub fn alu_vec(max: usize) -> impl Strategy<Value = Vec<AluSpec>> {
    prop::collection::vec((any::<u16>(), any::<u8>(), any::<u8>()), 0..max)
}

pub fn frag_strategy() -> impl Strategy<Value = Frag> {
    frag_strategy_focus(Focus::default())
}

pub fn frag_strategy_focus(f: Focus) -> impl Strategy<Value = Frag> {
    prop_oneof![
        4 => alu_vec(12).prop_map(Frag::Alu),
        4 => (any::<u16>(), prop::collection::vec((any::<u8>(), any::<u8>()), 1..10)).prop_map(|(s, o)| Frag::Mem(s, o)),
        3 => (any::<u8>(), alu_vec(6), any::<bool>()).prop_map(|(n, b, j)| Frag::Loop(n, b, j)),
        3 => (any::<u8>(), any::<u8>()).prop_map(|(k, c)| Frag::Call(k, c)),
        1 => any::<u8>().prop_map(Frag::Rst),
        2 => prop::collection::vec(any::<u8>(), 1..4).prop_map(Frag::PushPop),
        1 => any::<u8>().prop_map(Frag::JumpTable),
        3 => (any::<u8>(), any::<u8>()).prop_map(|(b, s)| Frag::FarCall(b, s)),
        2 => any::<u8>().prop_map(Frag::RamCode),
        1 + 2 * f.dma => any::<u8>().prop_map(Frag::Dma),
        2 + 3 * f.timer => (any::<u8>(), any::<u8>(), any::<u8>()).prop_map(|(a, b, c)| Frag::TimerCfg(a, b, c)),
        2 + 3 * f.lcd => (any::<u8>(), any::<u8>()).prop_map(|(a, b)| Frag::StatCfg(a, b)),
        2 + f.irq => any::<u8>().prop_map(Frag::IrqCfg),
        2 + 2 * f.timer => any::<u8>().prop_map(Frag::EiHalt),
        1 => alu_vec(8).prop_map(Frag::DiSection),
        2 + 4 * f.serial => prop::collection::vec((any::<u8>(), prop_oneof![Just(0x81u8), Just(0x80), Just(0x01), Just(0x00), any::<u8>()], any::<u8>()), 1..5).prop_map(Frag::Serial),
        1 => any::<bool>().prop_map(Frag::Ime),
        1 + f.timer => any::<u8>().prop_map(Frag::Stop),
        1 => Just(Frag::FallThrough),
        1 => (any::<u8>(), any::<u8>()).prop_map(|(m, u)| Frag::MbcMode(m, u)),
        1 => (any::<u8>(), any::<u16>()).prop_map(|(n, s)| Frag::SpOps(n, s)),
        1 => (prop_oneof![any::<u8>(), Just(0x11u8), Just(0x91u8), Just(0x00u8)], any::<u8>(), any::<u8>()).prop_map(|(l, a, b)| Frag::LcdCfg(l, a, b)),
        1 + 4 * f.dma + f.serial => (any::<u8>(), any::<u8>(), any::<u8>(), alu_vec(90)).prop_map(|(p, k, t, b)| Frag::DmaBg(p, k, t, b)),
        1 + f.dma + f.serial => prop_oneof![2 => alu_vec(90), 1 => alu_vec(280)].prop_map(Frag::LongBlock),
        1 + 4 * f.joy => (any::<u8>(), any::<u8>()).prop_map(|(s, k)| Frag::Joy(s, k)),
        1 + f.timer => (any::<u8>(), any::<u8>()).prop_map(|(t, b)| Frag::Stop2(t, b)),
        1 + 2 * f.irq + f.joy => any::<u8>().prop_map(Frag::IfWrite),
        1 + 2 * f.lcd => any::<u8>().prop_map(Frag::HaltStat),
        1 + 2 * f.timer => any::<u8>().prop_map(Frag::DivWrite),
    ]
}

pub fn prog_strategy(max_frags: usize) -> impl Strategy<Value = ProgSpec> {
    prog_strategy_focus(max_frags, Focus::default())
}

pub fn prog_strategy_focus(max_frags: usize, focus: Focus) -> impl Strategy<Value = ProgSpec> {
    (
        (any::<bool>(), any::<u8>(), any::<u8>(), any::<u8>(), any::<u8>(), any::<u8>(), any::<u8>(), any::<bool>()),
        prop::collection::vec(frag_strategy_focus(focus), 1..max_frags),
        prop::collection::vec((0u8..6, alu_vec(6)).prop_map(|(kind, body)| Isr { kind, body }), 5),
        prop::collection::vec(alu_vec(12), NSUBS),
        any::<u16>(),
    )
        .prop_map(|((sp_hram, ie, tac, tma, stat, lyc, lcdc, ei), frags, isrs, subs, far_seed)| ProgSpec { sp_hram, ie, tac, tma, stat, lyc: lyc % 154, lcdc, ei, frags, isrs, subs, far_seed })
}
