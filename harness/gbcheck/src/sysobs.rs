//! Program-level device observers: the independent device models (models::timer,
//! models::lcd, models::dma, models::joypad) follow a whole emulator core while it
//! runs a generated program, fed only with what the reference machine says the
//! CPU did in each step (the bus writes of the instructions, the clocks the step
//! is worth, the interrupt acknowledged) and with the button events the harness
//! injects. After every step the guest-visible registers of each device (DIV,
//! TIMA, TMA, TAC, LY, STAT, IF, OAM, P1) must be what its model says.
//!
//! This is the layer that sees the glue between the CPU loop and the devices
//! (emulator.rs, MemoryAreas::run_clock_cycles): a device that is correct when
//! driven directly (the device-level layers of C13, C14, C16, C17) can still be
//! starved, reset or over-run by the code that drives it.
//!
//! Order inside one step, as the emulator defines it (C09): every bus write of the
//! step's instructions happens first, then the step's clocks are delivered to the
//! devices in one batch, then the interrupt check (acknowledge + two pushes).

use crate::mach::Emu;
use crate::refmach::StepInfo;
use models::irq::Outcome as IrqOutcome;
use models::joypad::Joypad;
use models::lcd;
use models::timer::Timer;

#[derive(Clone, Copy, Debug, PartialEq, Eq)]
pub enum Dev {
    Timer,
    Lcd,
    Dma,
    Joypad,
    /// IF bit 3 (no device requests it in this emulator: it follows software writes only)
    Irq,
}

#[derive(Clone, Debug)]
pub struct ObsFail {
    pub dev: Dev,
    pub sig: &'static str,
    pub detail: String,
}

#[derive(Clone, Debug, Default)]
pub struct ObsStats {
    pub timer_overflows: u64,
    pub tac_edges: u64,
    pub div_writes: u64,
    pub div_ambiguous: u64,
    pub vblanks: u64,
    pub stat_requests: u64,
    pub stat_loose: u64,
    pub dma_started: u64,
    pub dma_completed: u64,
    pub dma_restarted: u64,
    pub dma_bytes_while_suspended: u64,
    pub dma_bytes_in_long_step: u64,
    pub dma_source_written_during: u64,
    pub dma_from_registers: u64,
    pub dma_source_pushed_over: u64,
    pub joy_edges_press: u64,
    pub joy_edges_select: u64,
    pub joy_request_survived_dispatch: u64,
    pub suspended_steps: u64,
    pub stop_steps: u64,
    pub dispatches: u64,
    pub lcd_switched_off: bool,
    pub tainted: Option<&'static str>,
}

pub struct Obs {
    pub timer: Timer,
    /// clocks delivered since power-on
    pub t: u64,
    pub stat_en: u8,
    pub lyc: u8,
    pub lcd_live: bool,
    /// expected IF bits 0-4
    pub if_exp: u8,
    pub dma: Option<(u8, u32)>,
    pub oam: [u8; 160],
    pub joy: Joypad,
    /// a falling input line caused by a button event since the last step
    joy_edge_pending: bool,
    pub stats: ObsStats,
}

fn oam_of(a: &dyn Emu) -> Vec<u8> {
    a.regions().iter().find(|(n, _)| *n == "oam").map(|(_, b)| b.to_vec()).unwrap_or_default()
}

fn scalar(a: &dyn Emu, name: &str) -> u64 {
    a.scalars().iter().find(|(n, _)| *n == name).map(|x| x.1).unwrap_or(0)
}

impl Obs {
    /// start following `a`; the models take over the machine's current (power-on) state
    pub fn new(a: &mut dyn Emu, clocks_since_power_on: u64) -> Obs {
        let mut timer = Timer::new();
        timer.div = scalar(a, "divider") as u16;
        timer.tima = a.read(0xff05);
        timer.tma = a.read(0xff06);
        timer.tac = a.read(0xff07) & 7;
        let mut oam = [0u8; 160];
        let o = oam_of(a);
        oam.copy_from_slice(&o[..160]);
        let p1 = a.read(0xff00);
        Obs {
            timer,
            t: clocks_since_power_on,
            stat_en: a.read(0xff41) & 0x78,
            lyc: a.read(0xff45),
            // the LCD runs from power-on; it is judged until a program clears LCDC bit 7
            lcd_live: true,
            if_exp: a.if_bits() & 0x1f,
            dma: None,
            oam,
            joy: Joypad::new(p1 & 0x30),
            joy_edge_pending: false,
            stats: ObsStats::default(),
        }
    }

    /// a button event injected between two steps (the caller applies it to the machines)
    pub fn button(&mut self, button: u8, down: bool) {
        let edge = if down { self.joy.press(button) } else { self.joy.release(button) };
        if edge {
            self.joy_edge_pending = true;
            self.stats.joy_edges_press += 1;
        }
    }

    /// Account for one step and compare. `a` is the machine under test, after the step.
    /// Returns every disagreement found; the models are re-synchronised to the machine
    /// afterwards so that one defect is reported once per step it manifests in, not forever.
    pub fn step(&mut self, info: &StepInfo, a: &mut dyn Emu) -> Vec<ObsFail> {
        let mut fails: Vec<ObsFail> = Vec::new();
        // bits of IF whose value after this step the properties leave open
        let mut if_loose = 0u8;
        let mut tima_loose = false;
        let mut wrote_if = false;
        let mut joy_write_edge = false;
        if self.joy_edge_pending {
            self.if_exp |= 0x10;
        }
        let joy_pending_in = self.joy_edge_pending;
        self.joy_edge_pending = false;
        let dma_before = self.dma;

        // 1. the bus writes of the step's instructions, in program order
        for &(addr, v) in &info.writes {
            match addr {
                0xff04 => {
                    self.stats.div_writes += 1;
                    if self.timer.write_div() {
                        // the selected divider bit was high: the property does not name this edge
                        tima_loose = true;
                        self.stats.div_ambiguous += 1;
                    }
                }
                0xff05 => self.timer.tima = v,
                0xff06 => self.timer.tma = v,
                0xff07 => {
                    let (edge, ovf) = self.timer.write_tac(v & 7);
                    if edge {
                        self.stats.tac_edges += 1;
                    }
                    if ovf {
                        self.if_exp |= 4;
                        self.stats.timer_overflows += 1;
                    }
                }
                0xff0f => {
                    self.if_exp = v & 0x1f;
                    wrote_if = true;
                }
                0xff41 | 0xff45 => {
                    if addr == 0xff41 {
                        self.stat_en = v & 0x78;
                    } else {
                        self.lyc = v;
                    }
                    // a request caused by the write itself is left open only where the write
                    // enables a source whose condition already holds: LY = LYC with the
                    // coincidence enable set, or (STAT writes) the current mode's enable
                    let pos = lcd::position(self.t);
                    let mode_bit = [lcd::STAT_MODE0, lcd::STAT_MODE1, lcd::STAT_MODE2, 0][pos.mode as usize & 3];
                    if (pos.line == self.lyc && self.stat_en & lcd::STAT_LYC != 0) || (addr == 0xff41 && self.stat_en & mode_bit != 0) {
                        if_loose |= 2;
                        self.stats.stat_loose += 1;
                    }
                }
                0xff40 => {
                    if v & 0x80 == 0 {
                        self.lcd_live = false;
                        self.stats.lcd_switched_off = true;
                    }
                }
                0xff46 => {
                    if self.dma.is_some() {
                        self.stats.dma_restarted += 1;
                    }
                    self.dma = Some((v, 0));
                    self.stats.dma_started += 1;
                }
                0xff00 => {
                    if self.joy.write(v) {
                        joy_write_edge = true;
                        self.stats.joy_edges_select += 1;
                    }
                }
                0xfe00..=0xfe9f => self.oam[(addr - 0xfe00) as usize] = v,
                _ => {}
            }
            if let Some((page, _)) = self.dma {
                if addr >> 8 == page as u16 && (addr & 0xff) < 0xa0 {
                    self.stats.dma_source_written_during += 1;
                }
            }
        }
        if joy_write_edge {
            self.if_exp |= 0x10;
            if wrote_if {
                // order of a select-line edge and a software IF write inside one step: left open
                if_loose |= 0x10;
            }
        }
        if joy_pending_in && wrote_if {
            if_loose |= 0x10;
        }

        // 2. the step's clocks, delivered in one batch
        let n = info.clocks;
        let (_, ovf) = self.timer.advance(n);
        if ovf > 0 {
            self.if_exp |= 4;
            self.stats.timer_overflows += ovf;
        }
        if self.lcd_live {
            let ev = lcd::events(self.t, self.t + n, self.stat_en, self.lyc);
            if ev.vblank > 0 {
                self.if_exp |= 1;
                self.stats.vblanks += ev.vblank as u64;
            }
            if ev.stat > 0 {
                self.if_exp |= 2;
                self.stats.stat_requests += ev.stat as u64;
            }
        }
        self.t += n;
        // the two bytes an interrupt dispatch of this step pushes land after the catch-up
        let pushed: Vec<u16> = match &info.irq {
            IrqOutcome::Dispatched { pushes, .. } => pushes.iter().map(|p| p.0).collect(),
            _ => Vec::new(),
        };
        if let Some((page, done)) = self.dma {
            let upto = (done + (n / 4) as u32).min(160);
            for k in done..upto {
                // each byte is read through the memory map when it is copied: at the catch-up,
                // i.e. with every write of this step already in place
                let src = (page as u16) << 8 | k as u16;
                self.oam[k as usize] = if (0xfe00..0xfea0).contains(&src) {
                    self.oam[(src & 0xff) as usize]
                } else if pushed.contains(&src) {
                    // copied in this step's catch-up, then overwritten by this step's dispatch:
                    // what the source held at the moment of the copy cannot be read back
                    self.stats.dma_source_pushed_over += 1;
                    oam_of(a)[k as usize]
                } else if page == 0xff {
                    // device registers as the source: their value at the moment of the copy is
                    // not observable afterwards (the same catch-up advances them); taken as found
                    self.stats.dma_from_registers += 1;
                    oam_of(a)[k as usize]
                } else {
                    a.read(src)
                };
            }
            let copied = (upto - done) as u64;
            if !info.executed {
                self.stats.dma_bytes_while_suspended += copied;
            } else if n >= 4 * 40 {
                self.stats.dma_bytes_in_long_step += copied;
            }
            if upto == 160 {
                self.dma = None;
                self.stats.dma_completed += 1;
            } else {
                self.dma = Some((page, upto));
            }
        }
        if !info.executed {
            self.stats.suspended_steps += 1;
        }

        // 3. the interrupt check
        if let IrqOutcome::Dispatched { ack, pushes, .. } = &info.irq {
            self.stats.dispatches += 1;
            if self.if_exp & 0x10 != 0 && *ack != 0x10 {
                self.stats.joy_request_survived_dispatch += 1;
            }
            self.if_exp &= !*ack;
            for (ad, _) in pushes.iter() {
                if (0xfe00..0xff80).contains(ad) || *ad == 0xffff {
                    // a runaway stack writing device registers: outside what the observers follow
                    self.stats.tainted = Some("interrupt dispatch pushed onto OAM / device registers");
                }
            }
        }
        if self.stats.tainted.is_some() {
            return fails;
        }

        // 4. compare
        // timer
        let div16 = scalar(a, "divider") as u16;
        let (div, tima, tma, tac) = (a.read(0xff04), a.read(0xff05), a.read(0xff06), a.read(0xff07) & 7);
        if div != self.timer.div_reg() || div16 != self.timer.div {
            fails.push(ObsFail { dev: Dev::Timer, sig: "program-div", detail: format!("DIV reads {:#04x} (divider {:#06x}); {} clocks have elapsed since it was last written, so DIV = {:#04x} (divider {:#06x})", div, div16, self.timer.div, self.timer.div_reg(), self.timer.div) });
            self.timer.div = div16;
        }
        if tima != self.timer.tima {
            let mut alt = self.timer;
            let mut ok = false;
            if tima_loose {
                // the DIV write may have counted as a falling edge, before the clocks of the step
                let mut t2 = self.timer;
                // replay: undo is not possible on the advanced model, so accept the one-increment-ahead value
                let o = t2.increment();
                if tima == t2.tima {
                    ok = true;
                    alt = t2;
                    if o {
                        if_loose |= 4;
                    }
                }
            }
            if !ok {
                fails.push(ObsFail { dev: Dev::Timer, sig: "program-tima", detail: format!("TIMA reads {:#04x}, the reference timer (TAC {:#04x}, TMA {:#04x}) has {:#04x}", tima, self.timer.tac, self.timer.tma, self.timer.tima) });
            }
            self.timer = alt;
            self.timer.tima = tima;
        }
        if tima_loose {
            if_loose |= 4;
        }
        if tma != self.timer.tma || tac != self.timer.tac & 7 {
            fails.push(ObsFail { dev: Dev::Timer, sig: "program-tma-tac", detail: format!("TMA/TAC read {:#04x}/{:#04x}, last written {:#04x}/{:#04x}", tma, tac, self.timer.tma, self.timer.tac & 7) });
            self.timer.tma = tma;
            self.timer.tac = tac;
        }
        // LCD
        if self.lcd_live {
            let pos = lcd::position(self.t);
            let (ly, stat) = (a.read(0xff44), a.read(0xff41));
            if ly != pos.line {
                fails.push(ObsFail { dev: Dev::Lcd, sig: "program-ly", detail: format!("LY reads {}; {} clocks were delivered since power-on, which is line {} dot {}", ly, self.t, pos.line, pos.dot) });
            } else if stat & 7 != lcd::stat_low(self.t, self.lyc) {
                fails.push(ObsFail { dev: Dev::Lcd, sig: "program-stat-mode", detail: format!("STAT bits 0-2 read {:#x} at line {} dot {} with LYC = {}; the schedule gives {:#x}", stat & 7, pos.line, pos.dot, self.lyc, lcd::stat_low(self.t, self.lyc)) });
            }
            if stat & 0x78 != self.stat_en {
                fails.push(ObsFail { dev: Dev::Lcd, sig: "program-stat-enables", detail: format!("STAT enable bits read {:#04x}, last written {:#04x}", stat & 0x78, self.stat_en) });
                self.stat_en = stat & 0x78;
            }
        } else {
            if_loose |= 3;
        }
        // OAM / DMA
        let oam = oam_of(a);
        if oam[..160] != self.oam[..] {
            let k = (0..160).find(|&k| oam[k] != self.oam[k]).unwrap();
            let how = match (dma_before, self.dma) {
                (Some((p, d)), now) => format!("a transfer from page {:#04x} stood at byte {} before the step ({} clocks) and {} after it", p, d, n, match now {
                    Some((_, d2)) => format!("at byte {}", d2),
                    None => "is complete".to_string(),
                }),
                (None, Some((p, d2))) => format!("a transfer from page {:#04x} was started in this step ({} clocks) and stands at byte {}", p, n, d2),
                (None, None) => "no transfer is running".to_string(),
            };
            fails.push(ObsFail { dev: Dev::Dma, sig: "program-oam", detail: format!("OAM byte {:#04x} is {:#04x}, expected {:#04x}: {}{}", k, oam[k], self.oam[k], how, if info.executed { "" } else { "; the CPU was halted / stopped in this step" }) });
            self.oam.copy_from_slice(&oam[..160]);
        }
        // joypad
        let p1 = a.read(0xff00);
        if p1 & 0x3f != self.joy.p1() {
            fails.push(ObsFail { dev: Dev::Joypad, sig: "program-p1", detail: format!("P1 bits 0-5 read {:#04x}; buttons {:#04x} with select bits {:#04x} give {:#04x}", p1 & 0x3f, self.joy.buttons, self.joy.select, self.joy.p1()) });
        }
        // IF
        let iff = a.if_bits() & 0x1f;
        let diff = (iff ^ self.if_exp) & !if_loose;
        for bit in 0..5u8 {
            if diff & (1 << bit) == 0 {
                continue;
            }
            let (dev, sig, what) = match bit {
                0 => (Dev::Lcd, "program-if-vblank", "VBlank"),
                1 => (Dev::Lcd, "program-if-stat", "STAT"),
                2 => (Dev::Timer, "program-if-timer", "timer"),
                3 => (Dev::Irq, "program-if-serial", "serial"),
                _ => (Dev::Joypad, "program-if-joypad", "joypad"),
            };
            let have = iff & (1 << bit) != 0;
            fails.push(ObsFail { dev, sig, detail: format!("the {} request bit of IF is {} after the step, the model has it {} (IF = {:#04x}, expected {:#04x}; acknowledged in this step: {})", what, have as u8, !have as u8, iff, self.if_exp, match &info.irq {
                IrqOutcome::Dispatched { ack, .. } => format!("{:#04x}", ack),
                _ => "nothing".to_string(),
            }) });
        }
        self.if_exp = iff;
        fails
    }
}

// ---------------------------------------------------------------------------
// runner shared by the program-level layers of C13, C14, C16, C17

use crate::checks::common::{diff_regs, guarded};
use crate::engine::Fail;
use crate::mach::{i, j, RUN};
use crate::refmach::RefMachine;
use crate::rom::RomImage;

/// button event: before step `.0`, button `.1` goes down (`.2` = true) or up
pub type ButtonEvent = (u32, u8, bool);

#[derive(Clone, Debug, Default)]
pub struct RunOutcome {
    pub stats: ObsStats,
    pub steps: u32,
    pub left_domain: bool,
    pub cpu_diverged: bool,
}

/// Run `rom` for up to `steps` emulator steps in stepping mode `mode` (0: interpreter
/// build, update() per instruction; 1: interpreter build, block-stepped; 2: jit build,
/// block-stepped) with the observers attached. Only disagreements of the devices in
/// `devs` are failures. A run ends quietly where the reference machine leaves its domain
/// or where the CPU state differs from the reference (C04/C05/C09 own that).
pub fn run_program(rom: &RomImage, mode: u8, steps: u32, buttons: &[ButtonEvent], devs: &[Dev]) -> (Result<(), Fail>, RunOutcome) {
    let mut out = RunOutcome::default();
    let mut boxed: Box<dyn Emu> = if mode == 2 { Box::new(j::M::new(rom)) } else { Box::new(i::M::new(rom)) };
    let mut t = i::M::new(rom);
    boxed.fill_ram(0x0b5);
    t.fill_ram(0x0b5);
    let mut r = RefMachine::new(t);
    let a: &mut dyn Emu = &mut *boxed;
    let mut obs = Obs::new(a, 0);
    let mut bi = 0usize;
    let mut sorted: Vec<ButtonEvent> = buttons.to_vec();
    sorted.sort_by_key(|e| e.0);
    for step in 0..steps {
        while bi < sorted.len() && sorted[bi].0 <= step {
            let (_, b, down) = sorted[bi];
            a.press(b & 7, down);
            r.t.press(b & 7, down);
            obs.button(b & 7, down);
            bi += 1;
        }
        // instruction-stepped: the reference first; block-stepped: the emulator first, the
        // reference then consumes the time it delivered (block extents are the emulator's)
        let mut info = None;
        if mode == 0 {
            let i0 = r.step_instruction();
            if i0.out_of_domain.is_some() {
                out.left_domain = true;
                break;
            }
            info = Some(i0);
        } else if r.next_out_of_domain().is_some() {
            out.left_domain = true;
            break;
        }
        let pc0 = a.regs().pc;
        let before = a.clocks_total();
        let was_running = a.run_state() == RUN;
        let was_stopped = a.run_state() == crate::mach::STOPPED;
        let res = guarded(|| {
            if mode == 0 || !was_running {
                a.step_update()
            } else {
                a.step_block()
            }
        });
        if res.is_err() {
            // a panic of the core (or a block running into an undefined opcode): C04 / C09 / C11 judge it
            out.cpu_diverged = true;
            break;
        }
        let delta = a.clocks_total().wrapping_sub(before);
        let info = match info {
            Some(i0) => i0,
            None => {
                let i1 = r.step_block_as(delta);
                if i1.out_of_domain.is_some() {
                    out.left_domain = true;
                    break;
                }
                i1
            }
        };
        out.steps = step + 1;
        if diff_regs(&a.regs(), &r.regs(), true, false).is_some() || a.run_state() != crate::refmach::run_code(r.run) {
            out.cpu_diverged = true;
            break;
        }
        if was_stopped {
            obs.stats.stop_steps += 1;
        }
        let if_before = obs.if_exp;
        let fails = obs.step(&info, a);
        if std::env::var("GB_OBS_DEBUG").is_ok() {
            let pos = lcd::position(obs.t);
            eprintln!("step {} pc {:#06x} exec {} clocks {} writes {:x?} irq {:?} -> t {} line {} dot {} IF {:#04x} (model before {:#04x}) stat_en {:#04x} lyc {} fails {}", step, pc0, info.executed, info.clocks, info.writes, info.irq, obs.t, pos.line, pos.dot, a.if_bits(), if_before, obs.stat_en, obs.lyc, fails.len());
        }
        if obs.stats.tainted.is_some() {
            out.left_domain = true;
            break;
        }
        if let Some(f) = fails.iter().find(|f| devs.contains(&f.dev)) {
            out.stats = obs.stats.clone();
            let what = if info.executed { format!("{} at {:#06x} (last opcode {:#04x}, {} clocks)", if mode == 0 { "instruction" } else { "block" }, pc0, info.opcode, info.clocks) } else { format!("halted/stopped step at {:#06x} ({} clocks)", pc0, info.clocks) };
            return (Err(Fail::new(f.sig, format!("step {} ({}), mode {}: {}", step, what, ["instruction-stepped interpreter", "block-stepped interpreter", "block-stepped jit"][mode as usize % 3], f.detail))), out);
        }
    }
    out.stats = obs.stats.clone();
    (Ok(()), out)
}

// ---------------------------------------------------------------------------
// generated layer

use crate::engine::{fnv, run_generated, CaseResult, Rec};
use crate::prog::{assemble, prog_strategy_focus, Focus, ProgSpec};
use proptest::prelude::*;
use serde_json::{json, Value};

pub fn case_json(spec: &ProgSpec, mode: u8, steps: u32, buttons: &[ButtonEvent]) -> Value {
    json!({"kind": "program-devices", "mode": mode, "steps": steps, "buttons": buttons, "spec": spec})
}

/// what a run exercised, as evidence classes (prefix "program-")
pub fn count_classes(o: &RunOutcome, mode: u8, rec: &mut Rec) {
    let s = &o.stats;
    rec.class(["program-mode-instruction", "program-mode-block-interpreter", "program-mode-block-jit"][mode as usize % 3], 1);
    rec.class("program-steps", o.steps as u64);
    for (n, v) in [
        ("program-timer-overflow", s.timer_overflows),
        ("program-tac-write-edge", s.tac_edges),
        ("program-div-write", s.div_writes),
        ("program-div-write-while-high", s.div_ambiguous),
        ("program-vblank", s.vblanks),
        ("program-stat-request", s.stat_requests),
        ("program-dma-started", s.dma_started),
        ("program-dma-completed", s.dma_completed),
        ("program-dma-restarted", s.dma_restarted),
        ("program-dma-bytes-while-halted-or-stopped", s.dma_bytes_while_suspended),
        ("program-dma-bytes-in-long-block", s.dma_bytes_in_long_step),
        ("program-dma-source-written-during-transfer", s.dma_source_written_during),
        ("program-dma-from-device-registers (bytes taken as found)", s.dma_from_registers),
        ("program-dma-source-byte-overwritten-by-the-same-step's-dispatch (taken as found)", s.dma_source_pushed_over),
        ("program-button-edge", s.joy_edges_press),
        ("program-select-edge", s.joy_edges_select),
        ("program-joypad-request-survived-other-dispatch", s.joy_request_survived_dispatch),
        ("program-halted-or-stopped-steps", s.suspended_steps),
        ("program-stopped-steps", s.stop_steps),
        ("program-dispatch", s.dispatches),
    ] {
        if v > 0 {
            rec.class(n, 1);
        }
    }
    if o.left_domain {
        rec.class("program-left-domain", 1);
    }
    if o.cpu_diverged {
        rec.class("program-cpu-state-differs-from-reference (not judged here)", 1);
    }
    if s.lcd_switched_off {
        rec.class("program-lcd-switched-off (LCD not judged afterwards)", 1);
    }
}

/// The generated program layer of a device check: `cases` programs per shard, each run
/// for `steps` steps in a generated stepping mode with generated button events.
pub fn program_layer(rec: &mut Rec, salt: &str, devs: &'static [Dev], focus: Focus, cases: u32, steps: u32, max_buttons: usize, nontrivial: fn(&RunOutcome) -> bool) {
    let jit_ok = rec.ctx.nshards < 4 || rec.ctx.shard % 2 == 0;
    let strat = (prog_strategy_focus(30, focus), 0u8..3, prop::collection::vec((0u32..steps.max(1), 0u8..8, any::<bool>()), 0..max_buttons.max(1)));
    fn to_json(v: &(ProgSpec, u8, Vec<ButtonEvent>)) -> Value {
        case_json(&v.0, v.1, 0, &v.2)
    }
    run_generated(rec, salt, cases, strat, to_json, |(spec, mode, buttons), rec, counting| {
        // translation is slow when many processes change page protections at once: the
        // jit mode runs on every other shard
        let mode = if *mode == 2 && !jit_ok { 1 } else { *mode };
        if counting {
            rec.current(&case_json(spec, mode, steps, buttons).to_string());
        }
        let (rom, _) = assemble(spec);
        let (res, out) = run_program(&rom, mode, steps, buttons, devs);
        if counting {
            rec.eval(1);
            count_classes(&out, mode, rec);
            rec.sample(|| case_json(spec, mode, steps, buttons));
            if nontrivial(&out) {
                rec.nontrivial(fnv(format!("{}{:?}{:?}", mode, spec, buttons).as_bytes()));
            }
        }
        res
    });
    for v in rec.res.violations.iter_mut() {
        if let Some(m) = v.case.as_object_mut() {
            if m.get("kind").and_then(|k| k.as_str()) == Some("program-devices") && m.get("steps").and_then(|s| s.as_u64()) == Some(0) {
                m.insert("steps".into(), json!(steps));
            }
        }
    }
}

/// replay of a "program-devices" case; returns false when the case is of another kind
pub fn replay_program(case: &Value, rec: &mut Rec, devs: &'static [Dev]) -> bool {
    if case.get("kind").and_then(|k| k.as_str()) != Some("program-devices") {
        return false;
    }
    let spec: ProgSpec = match case.get("spec").cloned().and_then(|v| serde_json::from_value(v).ok()) {
        Some(s) => s,
        None => {
            rec.inconclusive("replay case is not a program");
            return true;
        }
    };
    let mode = case.get("mode").and_then(|v| v.as_u64()).unwrap_or(0) as u8 % 3;
    let mut steps = case.get("steps").and_then(|v| v.as_u64()).unwrap_or(0) as u32;
    if steps == 0 {
        steps = 1500;
    }
    let buttons: Vec<ButtonEvent> = case.get("buttons").cloned().and_then(|v| serde_json::from_value(v).ok()).unwrap_or_default();
    rec.current(&case.to_string());
    let (rom, _) = assemble(&spec);
    let (res, out) = run_program(&rom, mode, steps, &buttons, devs);
    rec.eval(1);
    count_classes(&out, mode, rec);
    if let Err(f) = res {
        rec.violation(&f.sig, case_json(&spec, mode, steps, &buttons), f.detail);
    }
    true
}
