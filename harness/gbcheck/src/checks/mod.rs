use crate::engine::CheckDef;

pub mod common;
pub mod c05;
pub mod c06;

pub fn all() -> Vec<&'static CheckDef> {
    vec![&c05::DEF, &c06::DEF]
}

pub fn find(id: &str) -> Option<&'static CheckDef> {
    all().into_iter().find(|d| d.id == id)
}
