//! C18 — serial transfers appear on standard output in order.

use super::common::*;
use crate::checks::c04::step_block_mode;
use crate::engine::*;
use crate::mach::{i, j, Emu};
use crate::prog::{assemble, frag_strategy_focus, prog_strategy_focus, Focus, Frag, ProgSpec};
use crate::rom::RomImage;
use proptest::prelude::*;
use serde_json::{json, Value};
use std::os::unix::io::AsRawFd;

pub static DEF: CheckDef = CheckDef {
    id: "C18",
    run,
    replay,
    rule: "the worker's real standard output (fd 1) is redirected to an in-memory file and read back after every case. (a) hand-assembled snippets that write arbitrary values to 0xFF01/0xFF02 through every store form (LDH (n),A; LD (C),A; LD (HL),r; LD (HL),n; LD (HL+),A; LD (nn),A; LD (nn),SP with nn = 0xFF01; PUSH with SP = 0xFF03) with all four combinations of bit 7 in two consecutive SC values and 64 data values each; (b) proptest programs from the C04 generator with extra serial fragments (interrupt handlers that transmit included), (c) the cache-pressure programs of C04, which transmit while the translation area fills up and restarts - one of them switching banks, every bank transmitting its own byte -, plus C03's restart probe judged on the stream (the translation area filled to every level from 4 MiB up, then bank 1's blocks, which transmit bank 1's byte, entered - also at the address whose bank-2 block made the area restart), (d) proptest histories of direct writes to 0xFF01/0xFF02 through the bus, also with writes to the neighbouring registers 0xFF00/0xFF03/0xFF04 mixed in (they must not reach the data register). Each is run in three modes: interpreter build instruction-stepped, interpreter build block-stepped, jit build block-stepped. Oracle: the captured bytes must equal, exactly and in order, the value last written to 0xFF01 at the time of each write to 0xFF02 with bit 7 set, computed from the ordered bus-write trace; in every mode it must also equal the stream the reference CPU (models::sm83 + models::irq on a twin, stepped by instruction or by block like the mode) produces for the same program - bytes only the CPU's own stores to 0xFF01/0xFF02 can cause, which fixes the order of the two bytes of 16-bit stores and excludes output caused by anything else (a DMA running past OAM, for one); nothing else may appear on the stream; all three modes must produce the same stream. Non-trivial = case with at least two transmitting writes and at least one non-transmitting write to 0xFF02 or a write to 0xFF01 that is overwritten before being sent; distinct by hash of (case, mode).",
    assumptions: &[
        "the expected stream is a function of the machine's own ordered bus writes (hook); that those writes are the program's is C01/C04/C05's subject",
        "the loader's messages (printed before a ROM runs) are not part of the stream: machines are built with Core::from_rom_file",
    ],
    required_classes: &["cache-pressure", "snippet", "program", "direct-history", "direct-history-with-neighbours", "mode-instruction", "mode-block-interpreter", "mode-block-jit", "two-sends-and-a-non-send", "push-onto-ff03", "isr-transmits", "cache-pressure-banks-transmit", "restart-probe"],
    exhaustive: false,
};

struct Capture {
    file: std::fs::File,
    saved: i32,
}

impl Capture {
    fn new() -> Capture {
        let file = crate::rom::memfd_with(&[]);
        let saved = unsafe { libc::dup(1) };
        Capture { file, saved }
    }
    fn start(&mut self) {
        use std::io::Write;
        let _ = std::io::stdout().flush();
        unsafe {
            libc::ftruncate(self.file.as_raw_fd(), 0);
            libc::lseek(self.file.as_raw_fd(), 0, libc::SEEK_SET);
            libc::dup2(self.file.as_raw_fd(), 1);
        }
    }
    fn stop(&mut self) -> Vec<u8> {
        use std::io::Write;
        let _ = std::io::stdout().flush();
        let mut out = Vec::new();
        unsafe {
            libc::dup2(self.saved, 1);
            let len = libc::lseek(self.file.as_raw_fd(), 0, libc::SEEK_END);
            libc::lseek(self.file.as_raw_fd(), 0, libc::SEEK_SET);
            out.resize(len.max(0) as usize, 0);
            let mut got = 0usize;
            while got < out.len() {
                let n = libc::read(self.file.as_raw_fd(), out[got..].as_mut_ptr() as *mut libc::c_void, out.len() - got);
                if n <= 0 {
                    break;
                }
                got += n as usize;
            }
            out.truncate(got);
        }
        out
    }
}

#[derive(Clone, Debug, serde::Serialize, serde::Deserialize)]
enum Case {
    /// raw code placed at 0x0150 (ends in a self-loop), steps
    Snippet(String, u32),
    Program(ProgSpec, u32),
    /// direct bus writes: (is_control, value); with the third field set the write goes to a
    /// neighbouring register instead (0xFF00 / 0xFF03 / 0xFF04), which must not matter
    Direct(Vec<(bool, u8)>),
    DirectN(Vec<(u8, u8)>),
    /// the cache-pressure program of C04 (transmits one byte per iteration): opcode, steps
    Pressure(u8, u32),
}

fn case_json(c: &Case, mode: u8) -> Value {
    json!({"kind": "serial", "mode": mode, "case": c})
}

fn expected_from_writes(writes: &[(u16, u8)], sb: &mut u8, stats: &mut (u32, u32, u32)) -> Vec<u8> {
    let mut out = Vec::new();
    let mut unsent = false;
    for (a, v) in writes {
        if *a == 0xff01 {
            if unsent {
                stats.2 += 1;
            }
            *sb = *v;
            unsent = true;
        } else if *a == 0xff02 {
            if *v & 0x80 != 0 {
                out.push(*sb);
                unsent = false;
                stats.0 += 1;
            } else {
                stats.1 += 1;
            }
        }
    }
    out
}

/// returns (captured, expected, stats)
fn run_one(c: &Case, mode: u8, cap: &mut Capture) -> Result<(Vec<u8>, Vec<u8>, (u32, u32, u32)), Fail> {
    let rom: RomImage = match c {
        Case::Snippet(code, _) => {
            let mut rom = std_rom();
            let bytes = unhex(code);
            rom.bytes[0x150..0x150 + bytes.len()].copy_from_slice(&bytes);
            let end = 0x150 + bytes.len();
            rom.bytes[end] = 0x18;
            rom.bytes[end + 1] = 0xfe;
            rom.bytes[0x100..0x104].copy_from_slice(&[0x00, 0xc3, 0x50, 0x01]);
            rom
        }
        Case::Program(p, _) => assemble(p).0,
        Case::Direct(_) | Case::DirectN(_) => std_rom(),
        Case::Pressure(op, _) => {
            if *op == 0xff {
                crate::checks::c04::pressure_rom2()
            } else if *op == 0xfe {
                crate::checks::c04::pressure_rom4()
            } else {
                crate::checks::c04::pressure_rom(*op)
            }
        }
    };
    let mut boxed: Box<dyn Emu> = if mode == 2 { Box::new(j::M::new(&rom)) } else { Box::new(i::M::new(&rom)) };
    let m: &mut dyn Emu = &mut *boxed;
    let steps = match c {
        Case::Snippet(_, s) | Case::Program(_, s) | Case::Pressure(_, s) => *s,
        Case::Direct(_) | Case::DirectN(_) => 0,
    };
    let want_model = steps > 0 && !matches!(c, Case::Pressure(op, _) if *op != 0xfe);
    // clocks delivered by each step of the machine under test (block modes: the reference
    // follows the emulator's own block extents)
    let mut deltas: Vec<u64> = Vec::new();
    m.trace_enable(true);
    let _ = m.trace_take();
    cap.start();
    let res = guarded(|| {
        if let Case::Direct(ws) = c {
            for (ctl, v) in ws {
                m.write(if *ctl { 0xff02 } else { 0xff01 }, *v);
                m.run_clocks(4);
            }
        }
        if let Case::DirectN(ws) = c {
            for (which, v) in ws {
                m.write([0xff01u16, 0xff02, 0xff03, 0xff00, 0xff04, 0xff01, 0xff02, 0xff03][(*which & 7) as usize], *v);
                m.run_clocks(4);
            }
        }
        for _ in 0..steps {
            if !crate::refmach::executable(m.regs().pc as u16) && m.run_state() == crate::mach::RUN {
                break;
            }
            let before = m.clocks_total();
            if mode == 0 {
                m.step_update();
            } else {
                step_block_mode(m);
            }
            deltas.push(m.clocks_total().wrapping_sub(before));
        }
    });
    let got = cap.stop();
    m.trace_enable(false);
    let writes: Vec<(u16, u8)> = m.trace_take().iter().filter(|t| t.0 == 1).map(|t| (t.1, t.2)).collect();
    if let Err(msg) = &res {
        if msg.contains("Invalid OP") || msg.contains("TRIED TO EXECUTE") {
            // a runaway program executing data: the stream up to here is still checked
        } else {
            return Err(Fail::new("panic", format!("the emulator panicked: {}", msg)));
        }
    }
    let mut sb = 0u8;
    let mut stats = (0, 0, 0);
    let want = expected_from_writes(&writes, &mut sb, &mut stats);
    // Independent expectation: the reference CPU (models::sm83 + models::irq on a twin) says
    // which bytes the program stores to 0xFF01/0xFF02 and in which order - including the
    // order of the two bytes of a 16-bit store. In the block-stepped modes it consumes, step
    // by step, the time the machine under test delivered. Runs after the capture has ended
    // (the twin transmits too).
    let mut model_stream: Option<(Vec<u8>, bool)> = None;
    if want_model {
        let mut r = crate::refmach::RefMachine::new(i::M::new(&rom));
        let mut ws: Vec<(u16, u8)> = Vec::new();
        let mut complete = deltas.len() as u32 == steps && res.is_ok();
        for d in &deltas {
            let info = if mode == 0 { r.step_instruction() } else { r.step_block_as(*d) };
            if info.out_of_domain.is_some() {
                complete = false;
                break;
            }
            ws.extend(info.writes.iter().cloned());
            if let models::irq::Outcome::Dispatched { pushes, .. } = info.irq {
                ws.extend(pushes.iter().cloned());
            }
        }
        let mut sb = 0u8;
        let mut st = (0, 0, 0);
        model_stream = Some((expected_from_writes(&ws, &mut sb, &mut st), complete));
    }
    if let Some((ms, complete)) = model_stream {
        let ok = if complete { got == ms } else { got.starts_with(&ms) };
        if !ok {
            return Err(Fail::new(
                if mode == 0 { "program-order" } else { "program-order-block" },
                format!("{}: standard output carries {}, the reference CPU executing the same program transmits {}", ["instruction-stepped interpreter", "block-stepped interpreter", "block-stepped jit"][mode as usize % 3], describe(&got), describe(&ms)),
            ));
        }
    }
    Ok((got, want, stats))
}

fn describe(bytes: &[u8]) -> String {
    let head: Vec<String> = bytes.iter().take(24).map(|b| format!("{:02x}", b)).collect();
    format!("{} bytes [{}{}] ({:?})", bytes.len(), head.join(" "), if bytes.len() > 24 { " ..." } else { "" }, String::from_utf8_lossy(&bytes[..bytes.len().min(40)]))
}

fn exec(c: &Case, rec: &mut Rec, counting: bool, cap: &mut Capture) -> CaseResult {
    let mut streams: Vec<Vec<u8>> = Vec::new();
    for mode in 0..3u8 {
        if matches!(c, Case::Direct(_) | Case::DirectN(_)) {
            if mode == 1 {
                continue;
            }
        }
        let (got, want, stats) = run_one(c, mode, cap)?;
        if counting {
            rec.eval(1);
            rec.class(["mode-instruction", "mode-block-interpreter", "mode-block-jit"][mode as usize], 1);
            if stats.0 >= 2 && (stats.1 >= 1 || stats.2 >= 1) {
                rec.class("two-sends-and-a-non-send", 1);
                rec.nontrivial(fnv(format!("{}{:?}", mode, c).as_bytes()));
            }
        }
        if got != want {
            let sig = if got.len() > want.len() && got.starts_with(&want) {
                "extra-output"
            } else if got.len() < want.len() {
                "missing-output"
            } else if {
                let mut a = got.clone();
                let mut b = want.clone();
                a.sort();
                b.sort();
                a == b
            } {
                "reordered-output"
            } else {
                "wrong-bytes"
            };
            let mname = ["instruction-stepped interpreter", "block-stepped interpreter", "block-stepped jit"][mode as usize];
            return Err(Fail::new(sig, format!("{}: standard output carries {}, the serial writes transmit {}", mname, describe(&got), describe(&want))));
        }
        streams.push(got);
    }
    if matches!(c, Case::Direct(_) | Case::DirectN(_)) {
    } else if streams.len() == 3 && (streams[1] != streams[2]) {
        return Err(Fail::new("modes-differ", format!("block-stepped interpreter transmits {}, block-stepped jit {}", describe(&streams[1]), describe(&streams[2]))));
    }
    Ok(())
}

fn snippets() -> Vec<(String, &'static str)> {
    let mut v = Vec::new();
    let scs: [(u8, u8); 4] = [(0x81, 0x80), (0x81, 0x01), (0x00, 0x81), (0x7f, 0x00)];
    for k in 0..64u16 {
        let d1 = (k.wrapping_mul(37) as u8) ^ 0x41;
        let d2 = (k.wrapping_mul(101) as u8).wrapping_add(0x30);
        let (c1, c2) = scs[(k % 4) as usize];
        // LDH (n),A
        v.push((hex(&[0x3e, d1, 0xe0, 0x01, 0x3e, c1, 0xe0, 0x02, 0x3e, d2, 0xe0, 0x01, 0x3e, c2, 0xe0, 0x02]), "ldh"));
        // LD (C),A
        v.push((hex(&[0x3e, d1, 0x0e, 0x01, 0xe2, 0x3e, c1, 0x0c, 0xe2, 0x3e, d2, 0x0d, 0xe2, 0x3e, c2, 0x0c, 0xe2]), "ld-c"));
        // LD (HL),n / LD (HL),r / LD (HL+),A
        v.push((hex(&[0x21, 0x01, 0xff, 0x36, d1, 0x23, 0x06, c1, 0x70, 0x2b, 0x3e, d2, 0x22, 0x3e, c2, 0x77]), "ld-hl"));
        // LD (nn),A
        v.push((hex(&[0x3e, d1, 0xea, 0x01, 0xff, 0x3e, c1, 0xea, 0x02, 0xff, 0x3e, d2, 0xea, 0x01, 0xff, 0x3e, c2, 0xea, 0x02, 0xff]), "ld-nn"));
        // LD (nn),SP: low byte -> SB, high byte -> SC
        v.push((hex(&[0x31, d1, c1, 0x08, 0x01, 0xff, 0x31, d2, c2, 0x08, 0x01, 0xff, 0x31, 0xf0, 0xdf]), "ld-nn-sp"));
        // LD (0xFF02),SP: low byte -> SC, high byte -> the unconnected 0xFF03 (must not reach SB)
        v.push((hex(&[0x3e, d1, 0xe0, 0x01, 0x31, c1, d2, 0x08, 0x02, 0xff, 0x3e, c2 | 0x80, 0xe0, 0x02, 0x31, 0xf0, 0xdf]), "ld-ff02-sp"));
        // PUSH BC with SP = 0xFF04: B -> 0xFF03, C -> 0xFF02
        v.push((hex(&[0x3e, d1, 0xe0, 0x01, 0x31, 0x04, 0xff, 0x06, d2, 0x0e, c1 | 0x80, 0xc5, 0x3e, d2, 0xe0, 0x03, 0x3e, 0x81, 0xe0, 0x02, 0x31, 0xf0, 0xdf]), "push-ff04"));
        // PUSH BC with SP = 0xFF03: B -> 0xFF02 first, then C -> 0xFF01
        v.push((hex(&[0x3e, d1, 0xe0, 0x01, 0x31, 0x03, 0xff, 0x06, c1, 0x0e, d2, 0xc5, 0x31, 0x03, 0xff, 0x06, c2, 0x0e, d1, 0xc5, 0x31, 0xf0, 0xdf]), "push"));
    }
    v
}

fn run(rec: &mut Rec) {
    if rec.ctx.nshards >= 4 && rec.ctx.shard % 2 == 1 {
        return;
    }
    let mut cap = Capture::new();
    let workers = if rec.ctx.nshards >= 4 { rec.ctx.nshards / 2 } else { rec.ctx.nshards };
    let my = if rec.ctx.nshards >= 4 { rec.ctx.shard / 2 } else { rec.ctx.shard };
    for (k, (code, kind)) in snippets().into_iter().enumerate() {
        if k % workers != my || rec.too_many() {
            continue;
        }
        let c = Case::Snippet(code, 24);
        rec.current(&case_json(&c, 0).to_string());
        rec.class("snippet", 1);
        if kind == "push" {
            rec.class("push-onto-ff03", 1);
        }
        if let Err(f) = exec(&c, rec, true, &mut cap) {
            rec.violation(&format!("{}-{}", f.sig, kind), case_json(&c, 0), f.detail);
        }
        if k % 97 == 0 {
            rec.sample(|| case_json(&c, 0));
        }
    }
    // translation area filling up while the program transmits: nothing but the bytes may appear
    if my == 0 {
        // ... and with bank switching, every bank transmitting its own byte: the stream shows
        // whose code ran after the translation area restarted
        let c = Case::Pressure(0xfe, rec.ctx.tier.pick(1000, 6000));
        rec.current(&case_json(&c, 0).to_string());
        rec.class("cache-pressure-banks-transmit", 1);
        if let Err(f) = exec(&c, rec, true, &mut cap) {
            rec.violation(&format!("{}-cache-pressure-banks", f.sig), case_json(&c, 0), f.detail);
        }
        let c = Case::Pressure(0x27, rec.ctx.tier.pick(400, 4000));
        rec.current(&case_json(&c, 0).to_string());
        rec.class("cache-pressure", 1);
        if let Err(f) = exec(&c, rec, true, &mut cap) {
            rec.violation(&format!("{}-cache-pressure", f.sig), case_json(&c, 0), f.detail);
        }
    }
    // C03's restart probe, judged on the serial stream: the blocks transmit their bank's byte
    {
        let step = rec.ctx.tier.pick(0x20000usize, 0x8000);
        let mut k = 0usize;
        let mut target = 0x400000usize;
        while target < 0x7f0000 {
            if k % workers == my && !rec.too_many() {
                restart_probe_stream(rec, target);
            }
            k += 1;
            target += step;
        }
    }
    // programs with extra serial traffic
    let steps = rec.ctx.tier.pick(2500u32, 20_000);
    let cases = rec.ctx.tier.pick(150u32, 4000);
    let serial = prop::collection::vec((any::<u8>(), prop_oneof![Just(0x81u8), Just(0x80), Just(0x01), Just(0x7f), any::<u8>()], any::<u8>()), 1..6).prop_map(Frag::Serial);
    let focus = Focus { serial: 1, dma: 2, ..Default::default() };
    let strat = (prog_strategy_focus(24, focus), prop::collection::vec(prop_oneof![3 => serial, 1 => frag_strategy_focus(focus)], 1..8), any::<u8>()).prop_map(|(mut p, extra, isr)| {
        // interleave the extra fragments and make some handler transmit
        for (k, f) in extra.into_iter().enumerate() {
            let at = (k * 3 + 1).min(p.frags.len());
            p.frags.insert(at, f);
        }
        if isr & 1 == 0 {
            let k = (isr as usize >> 1) % 5;
            p.isrs[k].kind = 4;
        }
        p
    });
    let capcell = std::cell::RefCell::new(cap);
    fn to_json(p: &ProgSpec) -> Value {
        json!({"kind": "serial", "mode": 0, "case": {"Program": [p, 0]}})
    }
    run_generated(rec, "programs", cases, strat, to_json, |p, rec, counting| {
        let c = Case::Program(p.clone(), steps);
        if counting {
            rec.current(&case_json(&c, 0).to_string());
            rec.class("program", 1);
            if p.isrs.iter().any(|i| i.kind % 6 == 4) {
                rec.class("isr-transmits", 1);
            }
        }
        exec(&c, rec, counting, &mut capcell.borrow_mut())
    });
    for v in rec.res.violations.iter_mut() {
        if let Some(arr) = v.case.pointer_mut("/case/Program") {
            if let Some(a) = arr.as_array_mut() {
                if a.len() == 2 && a[1] == json!(0) {
                    a[1] = json!(steps);
                }
            }
        }
    }
    // direct histories
    let cases = rec.ctx.tier.pick(1500u32, 100_000);
    let strat = prop::collection::vec((any::<bool>(), prop_oneof![Just(0x81u8), Just(0x80), Just(0x01), Just(0x00), Just(0xff), any::<u8>()]), 1..40);
    fn djson(w: &Vec<(bool, u8)>) -> Value {
        json!({"kind": "serial", "mode": 0, "case": {"Direct": w}})
    }
    run_generated(rec, "direct", cases, strat, djson, |w, rec, counting| {
        let c = Case::Direct(w.clone());
        if counting {
            rec.class("direct-history", 1);
        }
        exec(&c, rec, counting, &mut capcell.borrow_mut())
    });
    // the same with writes to the neighbouring registers mixed in
    let strat = prop::collection::vec((0u8..8, prop_oneof![Just(0x81u8), Just(0x80), Just(0x01), Just(0x00), Just(0xff), any::<u8>()]), 1..40);
    fn dnjson(w: &Vec<(u8, u8)>) -> Value {
        json!({"kind": "serial", "mode": 0, "case": {"DirectN": w}})
    }
    run_generated(rec, "directn", cases, strat, dnjson, |w, rec, counting| {
        let c = Case::DirectN(w.clone());
        if counting {
            rec.class("direct-history-with-neighbours", 1);
        }
        exec(&c, rec, counting, &mut capcell.borrow_mut())
    });
}

fn restart_probe_stream(rec: &mut Rec, target: usize) {
    let case = json!({"kind": "serial", "mode": 2, "case": {"RestartProbe": target}});
    rec.current(&case.to_string());
    rec.eval(1);
    rec.class("restart-probe", 1);
    if let Ok(p) = crate::checks::c03::restart_probe(target) {
        let mut pairs = vec![&p.largest];
        if let Some(a) = &p.after_restart {
            pairs.push(a);
        }
        for (oj, oi) in pairs {
            // (how much of bank 1's run one step covers is the emulator's choice of block
            // extent; what is fixed is that both builds transmit the same in that step, and
            // never another bank's byte)
            if oj.serial != oi.serial || oj.serial.iter().any(|b| *b != 0x31) {
                rec.violation("restart-probe-stream", case.clone(), format!("bank 1's code transmits only its own byte 0x31; with {} bytes of the translation area in use the jit build transmitted {:02x?} in the step, the interpreter build {:02x?}", p.level, oj.serial, oi.serial));
                break;
            }
        }
    }
}

fn replay(case: &Value, rec: &mut Rec) {
    if let Some(t) = case.pointer("/case/RestartProbe").and_then(|v| v.as_u64()) {
        restart_probe_stream(rec, (t as usize).min(0x7f0000));
        return;
    }
    let c: Case = match case.get("case").cloned().and_then(|v| serde_json::from_value(v).ok()) {
        Some(c) => c,
        None => {
            rec.inconclusive("replay case is not a C18 case");
            return;
        }
    };
    let c = match c {
        Case::Program(p, 0) => Case::Program(p, 2500),
        other => other,
    };
    let mut cap = Capture::new();
    rec.current(&case.to_string());
    if let Err(f) = exec(&c, rec, true, &mut cap) {
        rec.violation(&f.sig, case_json(&c, 0), f.detail);
    }
}
