//! C07 — interrupt dispatch follows priority, masking and master-enable rules.

use super::common::*;
use crate::engine::*;
use crate::mach::{diff_state, i, Emu, Regs, Snapshot, HALTED, IME_DISABLED, IME_ENABLED, IME_ENABLE_NEXT, RUN, STOPPED};
use models::irq::{dispatch, Ime, IrqBus, IrqCpu, Outcome as IrqOutcome, Run};
use proptest::prelude::*;
use serde_json::{json, Value};

pub static DEF: CheckDef = CheckDef {
    id: "C07",
    run,
    replay,
    rule: "complete product IF (32) x IE (32) x master enable (off, on, EI-pending) x run state (running, halted, stopped) x 64 stack pointers (0x0000/0x0001/0x0002 so that a push lands on IE, 0xFF10/0xFF11 on IF, 0x2001/0x4001/0x6001 on bank registers, both sides of every region boundary, I/O registers with side effects: DIV, DMA, STAT, LCDC) x PC values (all 256 high bytes when the high-byte push lands on IE or IF, all 256 low bytes when the low-byte push does, 4 otherwise), poked into two identical machines; one calls Core::handle_interrupt, the other is driven by the reference dispatch model (models::irq) through its bus. Compared: run state, master enable, PC, SP (as full 32-bit fields), charged cycles, IF, IE, the ordered list of bus writes (hook) and the complete machine state. IF and IE are also written with their unused upper bits set (only sources 0-4 exist). Second pass: the same product on 6 stack pointers reached through update(), run_interp() and run_code_block(), the instruction stepped over being a NOP (a JR for the block path) and, for update() and run_interp(), also DI and EI from every master-enable state (EI pending included). Third pass: proptest states with arbitrary SP/PC. Fifth pass (the push itself raises a request): with the timer armed (selected divider bit high, TIMA = 0xFF) or LYC = LY, SP = 0xFF08 / 0xFF07 / 0xFF42 / 0xFF46 and all 256 PC high bytes, so that the high-byte push onto TAC, STAT or LYC changes IF through the device - the source must be the highest-priority one pending after that push. Fourth pass (the five machine cycles are really charged): for every non-empty IF x 4 handler shapes x 4 (IE, halted?, SP, PC) settings, after handle_interrupt() has dispatched, the handler's first step is run by update() of the interpreter build, as a block of the interpreter build and as a translated block of the jit build; the clocks delivered to the devices by that step (hook: running total; the divider) must be 4 x (5 + the machine cycles of the instructions executed, per models::sm83), last_block_cycle_length must say the same and no cycles may remain pending. Non-trivial = states with a pending enabled source; classes: two or more pending, masked only, cancelled by the push, woken from HALT/STOP, push on IE / IF / bank register.",
    assumptions: &[
        "models::irq (dispatch sequence from the CPU documentation: high byte pushed first, source chosen after the high-byte push, five machine cycles)",
        "when the low-byte push itself lands on IF the order of that write and the acknowledge is not prescribed: both resulting IF values are accepted",
        "bus side effects of the two pushes are produced by the repository's own bus on the twin machine (address decode is C10's subject)",
    ],
    required_classes: &["two-or-more-pending", "masked-only", "cancelled", "woken-halt", "woken-stop", "push-on-ie", "push-on-if", "push-on-bank-register", "ime-off-pending", "via-update", "via-run_interp", "via-run_code_block", "generated-state", "unused-bits-set-in-both", "dispatch-cycles-reach-devices", "after-dispatch-jit-block", "push-onto-armed-device", "request-raised-by-the-push-is-taken", "stepped-over-di-or-ei"],
    exhaustive: true,
};

#[derive(Clone, Copy, Debug, serde::Serialize, serde::Deserialize)]
struct Case {
    if_: u8,
    ie: u8,
    ime: u8,
    run: u8,
    sp: u16,
    pc: u16,
    path: u8,
    /// device state prepared before the check (0: power-on state): the high-byte push itself
    /// can then raise a request (see `prepare`)
    #[serde(default)]
    prep: u8,
}

fn case_json(c: &Case) -> Value {
    json!({"kind": "irq", "if": c.if_, "ie": c.ie, "ime": c.ime, "run_state": c.run, "sp": c.sp, "pc": c.pc, "path": c.path, "prep": c.prep})
}

struct Twin<'a> {
    m: &'a mut i::M,
}

impl<'a> IrqBus for Twin<'a> {
    fn write(&mut self, addr: u16, value: u8) {
        self.m.write(addr, value)
    }
    fn pending(&mut self) -> u8 {
        self.m.read(0xff0f) & self.m.read(0xffff) & 0x1f
    }
    fn ack(&mut self, bit: u8) {
        let v = self.m.read(0xff0f) & 0x1f & !bit;
        self.m.write(0xff0f, v);
    }
}

struct Pair {
    a: i::M,
    t: i::M,
    snap: Snapshot,
    ram_bank0: usize,
}

fn new_pair() -> Pair {
    let mut rom = std_rom();
    // a one-instruction block for the run_code_block path: JR -2 at 0x0150
    rom.bytes[0x150] = 0x18;
    rom.bytes[0x151] = 0xfe;
    // single instructions for the update() / run_interp() paths: NOP at 0x0160 (the ROM's
    // fill), DI at 0x0162, EI at 0x0164
    rom.bytes[0x160] = 0x00;
    rom.bytes[0x162] = 0xf3;
    rom.bytes[0x164] = 0xfb;
    let mut a = i::M::new(&rom);
    let mut t = i::M::new(&rom);
    a.fill_ram(0xc07);
    t.fill_ram(0xc07);
    let snap = a.snapshot(vec![]);
    let ram_bank0 = a.ram_bank();
    Pair { a, t, snap, ram_bank0 }
}

fn plainish(a: u16) -> bool {
    is_plain_ram(a) || (0xe000..0xfe00).contains(&a) || (0xfea0..0xff00).contains(&a) || a == 0xff0f || a == 0xffff
}

fn put_back(m: &mut i::M, snap: &Snapshot, bank0: usize, touched: &[u16], force_full: bool) {
    if force_full || touched.iter().any(|a| !plainish(*a)) || m.ram_bank() != bank0 {
        m.restore(snap);
        return;
    }
    for a in touched {
        let a = *a;
        let v = match a {
            0x8000..=0x9fff => snap.vram[a as usize & 0x1fff],
            0xa000..=0xbfff => snap.cart_ram[bank0 * 0x2000 + (a as usize & 0x1fff)],
            0xc000..=0xdfff => snap.wram[a as usize & 0x1fff],
            0xfe00..=0xfe9f => snap.oam[a as usize & 0xff],
            0xff80..=0xfffe => snap.hram[a as usize & 0x7f],
            _ => continue,
        };
        m.write(a, v);
    }
}

fn ime_model(v: u8) -> Ime {
    match v {
        IME_ENABLED => Ime::Enabled,
        IME_DISABLED => Ime::Disabled,
        _ => Ime::EnableNext,
    }
}
fn ime_code(v: Ime) -> u8 {
    match v {
        Ime::Enabled => IME_ENABLED,
        Ime::Disabled => IME_DISABLED,
        Ime::EnableNext => IME_ENABLE_NEXT,
    }
}
fn run_model(v: u8) -> Run {
    match v {
        RUN => Run::Run,
        STOPPED => Run::Stop,
        _ => Run::Halt,
    }
}
fn run_code(v: Run) -> u8 {
    match v {
        Run::Run => RUN,
        Run::Stop => STOPPED,
        Run::Halt => HALTED,
    }
}

fn set_state(m: &mut i::M, c: &Case) {
    m.write(0xffff, c.ie);
    m.write(0xff0f, c.if_);
    m.set_ime(c.ime);
    m.set_run_state(c.run);
    let r = Regs { af: 0x12b0, bc: 0x3456, de: 0x789a, hl: 0xbcde, sp: c.sp as u32, pc: c.pc as u32, cycles: 0 };
    m.set_regs(&r);
}

/// Device states in which a store made by the dispatch itself raises a request:
/// 1: timer running on divider bit 3 (TAC = 5), that bit high, TIMA = 0xFF - a push of a byte
///    with bit 2 clear, or selecting a low bit, onto TAC (SP = 0xFF08) overflows TIMA;
/// 2: the same on divider bit 5 (TAC = 6);
/// 3: LYC = LY (144 at power-on) - a push onto STAT (SP = 0xFF42) or LYC (SP = 0xFF46) may
///    raise the STAT request (what the device does there is its own business; the dispatch
///    must sample IF & IE after the high-byte push whatever made them change).
fn prepare(m: &mut i::M, prep: u8) {
    match prep {
        1 => {
            m.write(0xff07, 0x05);
            m.run_clocks(8);
            m.write(0xff06, 0x33);
            m.write(0xff05, 0xff);
        }
        2 => {
            m.write(0xff07, 0x06);
            m.run_clocks(32);
            m.write(0xff06, 0x77);
            m.write(0xff05, 0xff);
        }
        3 => {
            m.write(0xff45, 144);
            m.write(0xff41, 0x00);
        }
        _ => {}
    }
}

fn exec(p: &mut Pair, c: &Case, rec: &mut Rec, counting: bool, full: bool) -> CaseResult {
    if c.prep != 0 {
        prepare(&mut p.a, c.prep);
        prepare(&mut p.t, c.prep);
    }
    set_state(&mut p.a, c);
    set_state(&mut p.t, c);
    // machine under test
    p.a.trace_enable(true);
    let _ = p.a.trace_take();
    let r = guarded(|| match c.path {
        0 => p.a.handle_interrupt(),
        1 => p.a.step_update(),
        2 => p.a.step_interp(),
        _ => p.a.step_block(),
    });
    p.a.trace_enable(false);
    let trace = p.a.trace_take();
    let writes: Vec<(u16, u8)> = trace.iter().filter(|(k, _, _)| *k == 1).map(|(_, a, v)| (*a, *v)).collect();
    // reference on the twin
    let mut cpu = IrqCpu { pc: c.pc, sp: c.sp, ime: ime_model(c.ime), run: run_model(c.run), cycles: 0 };
    match c.path {
        0 => {}
        1 | 2 => {
            if c.path == 2 || c.run == RUN {
                // the one-byte instruction at PC: NOP, DI or EI. EI's delayed enable takes
                // effect once the instruction after it has completed; DI acts at once
                let op = p.t.read(c.pc);
                cpu.pc = cpu.pc.wrapping_add(1);
                if cpu.ime == Ime::EnableNext {
                    cpu.ime = Ime::Enabled;
                }
                match op {
                    0xf3 => cpu.ime = Ime::Disabled,
                    0xfb => {
                        if cpu.ime == Ime::Disabled {
                            cpu.ime = Ime::EnableNext;
                        }
                    }
                    _ => {}
                }
            }
            p.t.run_clocks(4);
        }
        _ => {
            // JR -2: PC unchanged, three machine cycles
            p.t.run_clocks(12);
        }
    }
    let out = dispatch(&mut cpu, &mut Twin { m: &mut p.t });
    let mut touched: Vec<u16> = writes.iter().map(|(a, _)| *a).collect();
    let want_writes: Vec<(u16, u8)> = match &out {
        IrqOutcome::Dispatched { pushes, .. } => pushes.to_vec(),
        _ => vec![],
    };
    touched.extend(want_writes.iter().map(|(a, _)| *a));
    if counting {
        let pend = c.if_ & c.ie & 0x1f;
        if pend != 0 {
            rec.nontrivial_direct(1);
            if pend.count_ones() >= 2 && c.ime == IME_ENABLED {
                rec.class("two-or-more-pending", 1);
            }
            if c.ime != IME_ENABLED {
                rec.class("ime-off-pending", 1);
            }
            if c.run == HALTED {
                rec.class("woken-halt", 1);
            }
            if c.run == STOPPED {
                rec.class("woken-stop", 1);
            }
        } else if c.if_ != 0 {
            rec.class("masked-only", 1);
        }
        if let IrqOutcome::Dispatched { ack, pushes, .. } = &out {
            if *ack == 0 {
                rec.class("cancelled", 1);
            }
            if *ack != 0 && *ack & c.if_ == 0 {
                rec.class("request-raised-by-the-push-is-taken", 1);
            }
            for (a, _) in pushes {
                match *a {
                    0xffff => rec.class("push-on-ie", 1),
                    0xff0f => rec.class("push-on-if", 1),
                    0x0000..=0x7fff => rec.class("push-on-bank-register", 1),
                    _ => {}
                }
            }
        }
        match c.path {
            1 => rec.class("via-update", 1),
            2 => rec.class("via-run_interp", 1),
            3 => rec.class("via-run_code_block", 1),
            _ => {}
        }
    }
    let verdict = (|| -> CaseResult {
        if let Err(msg) = r {
            return Err(Fail::new("panic", format!("interrupt handling panicked: {}", msg)));
        }
        let ra = p.a.regs();
        let kind = match &out {
            IrqOutcome::Nothing => "nothing-pending",
            IrqOutcome::Woke => "ime-off",
            IrqOutcome::Dispatched { ack: 0, .. } => "cancelled",
            IrqOutcome::Dispatched { .. } => "dispatch",
        };
        if p.a.run_state() != run_code(cpu.run) {
            return Err(Fail::new(format!("run-state-{}", kind), format!("run state is {} after the check, expected {} ({})", p.a.run_state(), run_code(cpu.run), kind)));
        }
        if p.a.ime() != ime_code(cpu.ime) {
            return Err(Fail::new(format!("ime-{}", kind), format!("master enable is {} after the check, expected {} ({})", p.a.ime(), ime_code(cpu.ime), kind)));
        }
        if ra.pc != cpu.pc as u32 {
            return Err(Fail::new(format!("pc-{}", kind), format!("PC = {:#x}, expected {:#06x} ({})", ra.pc, cpu.pc, kind)));
        }
        if ra.sp != cpu.sp as u32 {
            return Err(Fail::new(format!("sp-{}", kind), format!("SP = {:#x}, expected {:#06x} ({})", ra.sp, cpu.sp, kind)));
        }
        if ra.cycles != cpu.cycles {
            return Err(Fail::new(format!("cycles-{}", kind), format!("{} machine cycles charged, expected {} ({})", ra.cycles, cpu.cycles, kind)));
        }
        if (ra.af, ra.bc, ra.de, ra.hl) != (0x12b0, 0x3456, 0x789a, 0xbcde) {
            return Err(Fail::new("registers-changed", "a general register changed during interrupt handling".to_string()));
        }
        if writes != want_writes {
            return Err(Fail::new(format!("bus-writes-{}", kind), format!("bus writes {:x?}, expected {:x?} (high byte of PC first, at SP-1) ({})", writes, want_writes, kind)));
        }
        // IF / IE
        let if_a = p.a.read(0xff0f) & 0x1f;
        let if_t = p.t.read(0xff0f) & 0x1f;
        let mut if_ok = if_a == if_t;
        if let IrqOutcome::Dispatched { ack, pushes, .. } = &out {
            if pushes[1].0 == 0xff0f && *ack != 0 && if_a == pushes[1].1 & 0x1f {
                if_ok = true; // acknowledge applied before the low-byte push landed on IF
            }
        }
        if !if_ok {
            return Err(Fail::new(format!("if-{}", kind), format!("IF = {:#04x}, expected {:#04x} ({})", if_a, if_t, kind)));
        }
        let (ie_a, ie_t) = (p.a.read(0xffff), p.t.read(0xffff));
        if ie_a != ie_t {
            return Err(Fail::new(format!("ie-{}", kind), format!("IE = {:#04x}, expected {:#04x} ({})", ie_a, ie_t, kind)));
        }
        let special = touched.iter().any(|a| !is_plain_ram(*a));
        if full || special || c.path != 0 {
            if let Some(d) = diff_state(&p.a, &p.t, &["af", "bc", "de", "hl", "sp", "pc", "pending_cycles", "ime", "run_state", "if"]) {
                return Err(Fail::new(format!("state-{}", kind), format!("machine state differs from the reference after the check: {} ({})", d, kind)));
            }
        } else {
            for (a, _) in &want_writes {
                for d in [0u16, 1, 0xffff] {
                    let x = a.wrapping_add(d);
                    if p.a.read(x) != p.t.read(x) {
                        return Err(Fail::new(format!("memory-{}", kind), format!("memory at {:#06x} differs from the reference after the dispatch", x)));
                    }
                }
            }
        }
        Ok(())
    })();
    let force = c.path != 0 || c.prep != 0 || verdict.is_err();
    put_back(&mut p.a, &p.snap, p.ram_bank0, &touched, force);
    put_back(&mut p.t, &p.snap, p.ram_bank0, &touched, force);
    verdict
}

/// Fourth pass: the five machine cycles of a dispatch must reach the devices. After
/// handle_interrupt() has dispatched, the handler's first step is run in one of three ways
/// (0: update() of the interpreter build, 1: a block of the interpreter build, 2: a translated
/// block of the jit build) and the clocks delivered by that step must be 4 x (5 + the machine
/// cycles of the instructions executed), as the reference machine computes them.
fn after_dispatch(if_: u8, ie: u8, halted: bool, sp: u16, pc: u16, handler: u8, mode: u8) -> CaseResult {
    use crate::mach::j;
    use crate::refmach::RefMachine;
    let mut rom = std_rom();
    rom.bytes[0x100..0x104].copy_from_slice(&[0x00, 0xc3, 0x50, 0x01]);
    for v in 0..5usize {
        let code: &[u8] = match handler % 4 {
            0 => &[0x3c, 0xc9],             // INC A; RET
            1 => &[0xd9],                   // RETI
            2 => &[0xf5, 0x3c, 0xf1, 0xd9], // PUSH AF; INC A; POP AF; RETI
            _ => &[0x00, 0x00, 0x00, 0xc9], // three NOPs; RET
        };
        rom.bytes[0x40 + 8 * v..0x40 + 8 * v + code.len()].copy_from_slice(code);
    }
    let mut boxed: Box<dyn Emu> = if mode == 2 { Box::new(j::M::new(&rom)) } else { Box::new(i::M::new(&rom)) };
    let a: &mut dyn Emu = &mut *boxed;
    let mut t = i::M::new(&rom);
    for m in [&mut *a as &mut dyn Emu, &mut t as &mut dyn Emu] {
        m.write(0xffff, ie);
        m.write(0xff0f, if_);
        m.set_ime(IME_ENABLED);
        m.set_run_state(if halted { HALTED } else { RUN });
        m.set_regs(&Regs { af: 0x12b0, bc: 0x3456, de: 0x789a, hl: 0xbcde, sp: sp as u32, pc: pc as u32, cycles: 0 });
    }
    if let Err(m) = guarded(|| a.handle_interrupt()) {
        return Err(Fail::new("panic", format!("interrupt handling panicked: {}", m)));
    }
    // reference: the dispatch, then one step with the five cycles carried over
    let mut cpu = IrqCpu { pc, sp, ime: Ime::Enabled, run: if halted { Run::Halt } else { Run::Run }, cycles: 0 };
    let out = dispatch(&mut cpu, &mut Twin { m: &mut t });
    if !matches!(out, IrqOutcome::Dispatched { .. }) || cpu.cycles != 5 {
        return Ok(());
    }
    let ra = a.regs();
    if ra.cycles != 5 || ra.pc != cpu.pc as u32 {
        return Err(Fail::new("cycles-dispatch", format!("after the dispatch {} machine cycles are pending and PC = {:#06x}; expected 5 and {:#06x}", ra.cycles, ra.pc, cpu.pc)));
    }
    t.set_regs(&Regs { af: 0x12b0, bc: 0x3456, de: 0x789a, hl: 0xbcde, sp: cpu.sp as u32, pc: cpu.pc as u32, cycles: 5 });
    t.set_ime(IME_DISABLED);
    t.set_run_state(RUN);
    let mut r = RefMachine::new(t);
    let info = if mode == 0 { r.step_instruction() } else { r.step_block(1000) };
    let div0 = a.scalars().iter().find(|(n, _)| *n == "divider").map(|x| x.1).unwrap_or(0);
    let before = a.clocks_total();
    let res = guarded(|| if mode == 0 { a.step_update() } else { a.step_block() });
    if let Err(m) = res {
        return Err(Fail::new("panic", format!("the handler's first step panicked: {}", m)));
    }
    let delta = a.clocks_total().wrapping_sub(before);
    let div1 = a.scalars().iter().find(|(n, _)| *n == "divider").map(|x| x.1).unwrap_or(0);
    let mname = ["update() of the interpreter build", "a block of the interpreter build", "a translated block of the jit build"][mode as usize % 3];
    if delta != info.clocks {
        return Err(Fail::new("dispatch-cycles-lost", format!("the handler's first step ({}, {} machine cycles of instructions) delivered {} clocks to the devices; with the five machine cycles of the dispatch it must deliver {}", mname, info.instr_cycles, delta, info.clocks)));
    }
    if (div1.wrapping_sub(div0)) & 0xffff != delta & 0xffff {
        return Err(Fail::new("dispatch-cycles-lost", format!("the divider advanced by {} clocks over the handler's first step ({}), {} were delivered", div1.wrapping_sub(div0) & 0xffff, mname, delta)));
    }
    if a.regs().cycles != r.regs().cycles {
        return Err(Fail::new("cycles-after-handler-step", format!("{} machine cycles are pending after the handler's first step ({}), expected {}", a.regs().cycles, mname, r.regs().cycles)));
    }
    if mode != 0 && a.last_block_cycles() as u64 * 4 != info.clocks {
        return Err(Fail::new("dispatch-cycles-lost", format!("last_block_cycle_length = {} after the handler's first block ({}), expected {} (5 + {})", a.last_block_cycles(), mname, info.clocks / 4, info.instr_cycles)));
    }
    Ok(())
}

fn after_json(if_: u8, ie: u8, halted: bool, sp: u16, pc: u16, handler: u8, mode: u8) -> Value {
    json!({"kind": "after-dispatch", "if": if_, "ie": ie, "halted": halted, "sp": sp, "pc": pc, "handler": handler, "mode": mode})
}

fn sp_list() -> Vec<u16> {
    let mut v: Vec<u16> = vec![
        0x0000, 0x0001, 0x0002, 0xff10, 0xff11, 0x2001, 0x2002, 0x4001, 0x6001, 0x8000, 0x8001, 0x8002, 0xa000, 0xa001, 0xa002, 0xc000, 0xc001, 0xc002, 0xd000, 0xd001, 0xd002, 0xe000, 0xe001, 0xe002,
        0xfe00, 0xfe01, 0xfe02, 0xfea0, 0xfea1, 0xfea2, 0xff00, 0xff01, 0xff02, 0xff80, 0xff81, 0xff82, 0xfffe, 0xffff, 0xff05, 0xff06, 0xff47, 0xff48, 0xff41, 0xff42, 0xff43, 0xff46, 0xff08, 0xff09,
        0xcffe, 0xdffe, 0xc100, 0xfff0, 0x9000, 0xb000, 0x3000, 0x7fff, 0x0100, 0x5000, 0xfe50, 0xfec0, 0xf000, 0xff4c, 0xff0f, 0xff12,
    ];
    v.dedup();
    v
}

fn pcs_for(sp: u16, thorough: bool) -> Vec<u16> {
    let hi_addr = sp.wrapping_sub(1);
    let lo_addr = sp.wrapping_sub(2);
    let mut v: Vec<u16> = vec![0x0150, 0xc123, 0xffff, 0x0000];
    if hi_addr == 0xffff || hi_addr == 0xff0f {
        for h in 0..=255u16 {
            v.push(h << 8 | 0x42);
            if thorough {
                v.push(h << 8 | 0x1f);
            }
        }
    }
    if lo_addr == 0xffff || lo_addr == 0xff0f {
        for l in 0..=255u16 {
            v.push(0x0100 | l);
            if thorough {
                v.push(0xe400 | l);
            }
        }
    }
    if hi_addr < 0x8000 || lo_addr < 0x8000 {
        v.extend([0x0a0a, 0x0101, 0x1f03, 0x2001, 0x0000, 0xffff, 0x0302]);
    }
    v
}

fn run(rec: &mut Rec) {
    let mut p = new_pair();
    let thorough = rec.ctx.tier == Tier::Thorough;
    let sps = sp_list();
    let mut n: u64 = 0;
    for item in 0..1024usize {
        if !rec.ctx.mine(item) || rec.too_many() {
            continue;
        }
        let (if_, ie) = ((item >> 5) as u8, (item & 31) as u8);
        for ime in [IME_DISABLED, IME_ENABLED, IME_ENABLE_NEXT] {
            for run in [RUN, STOPPED, HALTED] {
                for sp in &sps {
                    for pc in pcs_for(*sp, thorough) {
                        let c = Case { if_, ie, ime, run, sp: *sp, pc, path: 0, prep: 0 };
                        n += 1;
                        if n % 4096 == 1 {
                            rec.current(&case_json(&c).to_string());
                        }
                        rec.eval(1);
                        if let Err(f) = exec(&mut p, &c, rec, true, n % 64 == 0) {
                            rec.current(&case_json(&c).to_string());
                            rec.violation(&f.sig, case_json(&c), f.detail);
                        }
                    }
                }
                // IF and IE written with their unused upper bits set: only sources 0-4 exist
                for (fi, fe) in [(0xe0u8, 0xe0u8), (0xe0, 0x00), (0x00, 0xe0), (0xa0, 0x60)] {
                    for sp in [0xd000u16, 0x0000, 0xff10, 0xff11] {
                        let c = Case { if_: if_ | fi, ie: ie | fe, ime, run, sp, pc: 0x2345, path: 0, prep: 0 };
                        rec.eval(1);
                        if fi & fe != 0 {
                            rec.class("unused-bits-set-in-both", 1);
                        }
                        if let Err(f) = exec(&mut p, &c, rec, true, true) {
                            rec.violation(&f.sig, case_json(&c), f.detail);
                        }
                    }
                }
                // second pass: through the emulator's stepping entry points
                for path in 1..=3u8 {
                    for sp in [0xd000u16, 0x0000, 0x0001, 0xff10, 0xff11, 0xfffe] {
                        let c = Case { if_, ie, ime, run, sp, pc: if path == 3 { 0x0150 } else { 0x0160 }, path, prep: 0 };
                        rec.eval(1);
                        if let Err(f) = exec(&mut p, &c, rec, true, true) {
                            rec.violation(&f.sig, case_json(&c), f.detail);
                        }
                    }
                    // the instruction stepped over is DI or EI: the check that follows it sees
                    // the master enable as that instruction leaves it
                    if path != 3 {
                        for pc in [0x0162u16, 0x0164] {
                            let c = Case { if_, ie, ime, run, sp: 0xd000, pc, path, prep: 0 };
                            rec.eval(1);
                            rec.class("stepped-over-di-or-ei", 1);
                            if let Err(f) = exec(&mut p, &c, rec, true, true) {
                                rec.violation(&format!("{}-after-{}", f.sig, if pc == 0x0162 { "di" } else { "ei" }), case_json(&c), f.detail);
                            }
                        }
                    }
                }
            }
        }
        if item % 37 == 0 {
            rec.sample(|| case_json(&Case { if_, ie, ime: IME_ENABLED, run: HALTED, sp: 0x0000, pc: 0x0242, path: 0, prep: 0 }));
        }
    }
    rec.exhaustive_part("IF (32) x IE (32) x master enable (3) x run state (3) x the listed stack pointers and PC sets, direct and through update/run_interp/run_code_block");
    // fifth pass: the high-byte push itself raises a request (through the device it lands on);
    // the source is chosen after that push
    for item in 0..256usize {
        if !rec.ctx.mine(item) || rec.too_many() {
            continue;
        }
        let pch = item as u8;
        for (prep, sp) in [(1u8, 0xff08u16), (2, 0xff08), (3, 0xff42), (3, 0xff46), (1, 0xff07), (0, 0xff08)] {
            for (if_, ie) in [(0x10u8, 0x14u8), (0x08, 0x0c), (0x18, 0x1f), (0x10, 0x16), (0x08, 0x0a), (0x10, 0x10), (0x01, 0x1f)] {
                for run in [RUN, HALTED] {
                    let c = Case { if_, ie, ime: IME_ENABLED, run, sp, pc: (pch as u16) << 8 | 0x34, path: 0, prep };
                    rec.eval(1);
                    rec.class("push-onto-armed-device", 1);
                    if let Err(f) = exec(&mut p, &c, rec, true, true) {
                        rec.current(&case_json(&c).to_string());
                        rec.violation(&format!("armed-{}", f.sig), case_json(&c), f.detail);
                    }
                }
            }
        }
    }
    // fourth pass: the dispatch's five machine cycles reach the devices with the handler's first step
    for item in 0..(32 * 4 * 3) as usize {
        if !rec.ctx.mine(item) || rec.too_many() {
            continue;
        }
        let (if_, handler, mode) = ((item % 32) as u8, ((item / 32) % 4) as u8, (item / 128) as u8);
        if if_ == 0 {
            continue;
        }
        for (ie, halted, sp, pc) in [(0x1fu8, false, 0xdff0u16, 0x0150u16), (if_, true, 0xfffe, 0x4123), (0x1f, false, 0xc002, 0xc123), (if_ | 1, true, 0xdff0, 0x0151)] {
            let case = after_json(if_, ie, halted, sp, pc, handler, mode);
            rec.current(&case.to_string());
            rec.eval(1);
            rec.class("dispatch-cycles-reach-devices", 1);
            rec.class(["after-dispatch-update", "after-dispatch-interpreter-block", "after-dispatch-jit-block"][mode as usize % 3], 1);
            rec.nontrivial_direct(1);
            if let Err(f) = after_dispatch(if_, ie, halted, sp, pc, handler, mode) {
                rec.violation(&format!("{}-mode{}", f.sig, mode), case, f.detail);
            }
        }
    }
    // third pass: generated states
    let cases = rec.ctx.tier.pick(20_000u32, 2_000_000);
    let strat = (prop_oneof![3 => 0u8..32, 1 => any::<u8>()], any::<u8>(), 0u8..3, 0u8..3, any::<u16>(), any::<u16>(), 0u8..4);
    let pair = std::cell::RefCell::new(p);
    let mk = |v: &(u8, u8, u8, u8, u16, u16, u8)| {
        let path = v.6;
        // stepping paths execute the instruction at PC: keep PC on the prepared code
        let pc = if path == 0 { v.5 } else if path == 3 { 0x0150 } else { 0x0160 };
        Case { if_: v.0, ie: v.1, ime: [IME_DISABLED, IME_ENABLED, IME_ENABLE_NEXT][v.2 as usize], run: [RUN, STOPPED, HALTED][v.3 as usize], sp: v.4, pc, path, prep: 0 }
    };
    let to_json: fn(&(u8, u8, u8, u8, u16, u16, u8)) -> Value = |v| {
        let path = v.6;
        let pc = if path == 0 { v.5 } else if path == 3 { 0x0150 } else { 0x0160 };
        case_json(&Case { if_: v.0, ie: v.1, ime: [IME_DISABLED, IME_ENABLED, IME_ENABLE_NEXT][v.2 as usize], run: [RUN, STOPPED, HALTED][v.3 as usize], sp: v.4, pc, path, prep: 0 })
    };
    run_generated(rec, "gen", cases, strat, to_json, |v, rec, counting| {
        let c = mk(v);
        if counting {
            rec.eval(1);
            rec.class("generated-state", 1);
            if c.if_ & c.ie & 0x1f != 0 {
                rec.nontrivial(fnv(format!("{:?}", c).as_bytes()));
            }
        }
        exec(&mut pair.borrow_mut(), &c, rec, counting, true)
    });
}

fn replay(case: &Value, rec: &mut Rec) {
    let g = |k: &str| case.get(k).and_then(|v| v.as_u64()).unwrap_or(0);
    if case.get("kind").and_then(|k| k.as_str()) == Some("after-dispatch") {
        let halted = case.get("halted").and_then(|v| v.as_bool()).unwrap_or(false);
        rec.eval(1);
        rec.current(&case.to_string());
        if let Err(f) = after_dispatch(g("if") as u8, g("ie") as u8, halted, g("sp") as u16, g("pc") as u16, g("handler") as u8, g("mode") as u8) {
            rec.violation(&format!("{}-mode{}", f.sig, g("mode")), case.clone(), f.detail);
        }
        return;
    }
    let c = Case { if_: g("if") as u8, ie: g("ie") as u8, ime: g("ime") as u8, run: g("run_state") as u8, sp: g("sp") as u16, pc: g("pc") as u16, path: g("path") as u8, prep: g("prep") as u8 };
    let mut p = new_pair();
    rec.eval(1);
    rec.current(&case.to_string());
    if let Err(f) = exec(&mut p, &c, rec, true, true) {
        rec.violation(&f.sig, case_json(&c), f.detail);
    }
}
