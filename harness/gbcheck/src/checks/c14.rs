//! C14 — LCD line/mode schedule has a 70224-clock frame and raises VBlank/STAT correctly.

use super::common::*;
use crate::engine::*;
use crate::mach::{i, Emu};
use models::lcd;
use proptest::prelude::*;
use serde_json::{json, Value};

pub static DEF: CheckDef = CheckDef {
    id: "C14",
    run,
    replay,
    rule: "(a) exhaustive walk: for all 16 STAT enable masks x LYC in {0, 1, 77, 143, 144, 153, 200}, two whole frames (plus the power-on vertical blank) are delivered 4 clocks at a time, and after every batch LY, the STAT mode and coincidence bits, the VBlank request and the STAT request of that batch are compared with the closed-form schedule (models::lcd): this pins every event to its exact 4-clock slot. (b) proptest histories of up to 12 operations over {write STAT enable mask, write LYC, advance(n)} with n a multiple of 4 from 4 to 2000000 clocks (up to 28 frames in one batch, biased to whole numbers of frames and to multiples of 262144; biased to line, mode and frame boundaries), on the VideoState device and through the bus (0xFF41/0xFF44/0xFF45, IF bits 0 and 1); same observations after every operation. Metamorphic: every advance is also delivered split at generated cut points to a second instance, which must observe exactly the same. Non-trivial = history whose advances cross 143->144, 153->0, an enabled mode entry or an LY=LYC hit; distinct by hash of the history. Program layer (the glue between the CPU loop and the device): generated structured programs (C04's generator with the device fragments weighted up: STAT/LYC writes, EI;HALT woken by a STAT source, OAM DMA running in the background) run on a whole core in three stepping modes (interpreter instruction-stepped, interpreter block-stepped, jit block-stepped); the reference machine says which bus writes each step made, how many clocks it is worth and which request was acknowledged, and the independent model fed with exactly that must agree with LY, STAT bits 0-2, the STAT enable bits and IF bits 0 and 1 (a batch with a cause must request, a batch with none must not; a STAT/LYC write while LY = LYC leaves bit 1 open; the LCD is not judged after a program clears LCDC bit 7) after every step.",
    assumptions: &[
        "models::lcd (154 lines x 456 clocks, 80/188/188 split as the property states, power-on at the first clock of line 144)",
        "a STAT request caused by a STAT or LYC write that enables a source whose condition already holds (LY = LYC with the coincidence enable set after the write; the current mode's enable set by a STAT write) is neither required nor forbidden - any other register write must not request; STAT-line blocking between sources is not modelled (a batch containing at least one cause must request, a batch with none must not)",
        "batches are multiples of 4 clocks (every caller guarantees it); LCDC = 0x91 (LCD on)",
    ],
    required_classes: &["cross-143-144", "cross-153-0", "enabled-mode-entry", "lyc-hit", "split-advance-with-event", "level-device", "level-bus", "walk", "program-vblank", "program-stat-request", "program-dma-started", "program-halted-or-stopped-steps", "program-mode-block-jit"],
    exhaustive: false,
};

#[derive(Clone, Debug, serde::Serialize, serde::Deserialize)]
enum Op {
    Stat(u8),
    Lyc(u8),
    Adv(u32, Vec<u16>),
}

#[derive(Clone, Debug, serde::Serialize, serde::Deserialize)]
struct Case {
    level: u8,
    ops: Vec<Op>,
}

fn case_json(c: &Case) -> Value {
    json!({"kind": "lcd", "case": c})
}

#[derive(Clone, Copy, Debug, PartialEq, Eq)]
struct Obs {
    ly: u8,
    stat_low: u8,
    stat_en: u8,
    vblank: bool,
    stat_req: bool,
}

trait Dut {
    fn set_stat(&mut self, v: u8) -> (bool, bool);
    fn set_lyc(&mut self, v: u8) -> (bool, bool);
    fn adv(&mut self, n: u32) -> (bool, bool);
    fn regs(&mut self) -> (u8, u8);
}

struct Dev {
    v: gbint::devices::video::VideoState,
    vram: Box<[u8]>,
    oam: Box<[u8]>,
}
fn flags(f: gbint::devices::interrupts::InterruptFlag) -> (bool, bool) {
    (f.as_u8() & 1 != 0, f.as_u8() & 2 != 0)
}
impl Dut for Dev {
    fn set_stat(&mut self, v: u8) -> (bool, bool) {
        flags(self.v.set_lcd_status(v))
    }
    fn set_lyc(&mut self, v: u8) -> (bool, bool) {
        flags(self.v.set_ly_compare(v))
    }
    fn adv(&mut self, n: u32) -> (bool, bool) {
        flags(self.v.run_clock_cycles(gbint::timing::ClockCycles(n as usize), &self.vram, &self.oam))
    }
    fn regs(&mut self) -> (u8, u8) {
        (self.v.get_ly(), self.v.get_lcd_status())
    }
}
fn new_dev() -> Dev {
    let mut v = gbint::devices::video::VideoState::new();
    v.set_lcd_control(0x91);
    let mut vram = vec![0u8; 0x2000];
    let mut x = 77u64;
    for b in vram.iter_mut() {
        x = splitmix(x);
        *b = x as u8;
    }
    Dev { v, vram: vram.into_boxed_slice(), oam: vec![0u8; 0xa0].into_boxed_slice() }
}

struct BusDut {
    m: i::M,
}
impl BusDut {
    fn take(&mut self) -> (bool, bool) {
        let v = self.m.read(0xff0f) & 0x1f;
        self.m.write(0xff0f, v & !3);
        (v & 1 != 0, v & 2 != 0)
    }
}
impl Dut for BusDut {
    fn set_stat(&mut self, v: u8) -> (bool, bool) {
        self.m.write(0xff41, v);
        self.take()
    }
    fn set_lyc(&mut self, v: u8) -> (bool, bool) {
        self.m.write(0xff45, v);
        self.take()
    }
    fn adv(&mut self, n: u32) -> (bool, bool) {
        self.m.run_clocks(n as usize);
        self.take()
    }
    fn regs(&mut self) -> (u8, u8) {
        (self.m.read(0xff44), self.m.read(0xff41))
    }
}

fn cut_sizes(n: u32, cuts: &[u16]) -> Vec<u32> {
    let mut pts: Vec<u32> = cuts.iter().map(|c| ((n as u64 * *c as u64) >> 16) as u32 / 4 * 4).filter(|p| *p > 0 && *p < n).collect();
    pts.sort();
    pts.dedup();
    let mut out = Vec::new();
    let mut prev = 0;
    for p in pts {
        out.push(p - prev);
        prev = p;
    }
    out.push(n - prev);
    out
}

#[derive(Default)]
struct Stats {
    cross_vblank: bool,
    cross_wrap: bool,
    mode_entry: bool,
    lyc_hit: bool,
    split_event: bool,
    write_without_cause: bool,
}

fn exec_on(whole: &mut dyn Dut, split: &mut dyn Dut, ops: &[Op], st: &mut Stats) -> CaseResult {
    let mut t: u64 = 0;
    let mut stat_en: u8 = 0;
    let mut lyc: u8 = 0;
    for (k, op) in ops.iter().enumerate() {
        let (fw, fs);
        let mut want_vblank = false;
        let mut want_stat: Option<bool> = None;
        match op {
            Op::Stat(v) => {
                stat_en = *v & 0x78;
                fw = whole.set_stat(*v);
                fs = split.set_stat(*v);
                // a register write is no mode entry and does not make LY become LYC. What a
                // write may do when it enables a source whose condition already holds is left
                // open; with no such source it must not request anything
                let p = lcd::position(t);
                let mode_bit = [lcd::STAT_MODE0, lcd::STAT_MODE1, lcd::STAT_MODE2, 0][p.mode as usize & 3];
                if !((p.line == lyc && stat_en & lcd::STAT_LYC != 0) || stat_en & mode_bit != 0) {
                    want_stat = Some(false);
                    st.write_without_cause = true;
                }
            }
            Op::Lyc(v) => {
                lyc = *v;
                fw = whole.set_lyc(*v);
                fs = split.set_lyc(*v);
                if !(lcd::position(t).line == lyc && stat_en & lcd::STAT_LYC != 0) {
                    want_stat = Some(false);
                    st.write_without_cause = true;
                }
            }
            Op::Adv(n, cuts) => {
                let n = (*n / 4).max(1) * 4;
                fw = whole.adv(n);
                let parts = cut_sizes(n, cuts);
                let mut acc = (false, false);
                for p in &parts {
                    let f = split.adv(*p);
                    acc = (acc.0 | f.0, acc.1 | f.1);
                }
                fs = acc;
                let ev = lcd::events(t, t + n as u64, stat_en, lyc);
                t += n as u64;
                want_vblank = ev.vblank > 0;
                want_stat = Some(ev.stat > 0);
                if ev.vblank > 0 {
                    st.cross_vblank = true;
                }
                if lcd::position(t).line < lcd::position(t - n as u64).line || n as u64 >= lcd::FRAME {
                    st.cross_wrap = true;
                }
                if ev.stat > 0 && (ev.mode0_entries + ev.mode1_entries + ev.mode2_entries) > 0 && stat_en & 0x38 != 0 {
                    st.mode_entry = true;
                }
                if ev.lyc_hits > 0 {
                    st.lyc_hit = true;
                }
                if parts.len() > 1 && (ev.stat > 0 || ev.vblank > 0) {
                    st.split_event = true;
                }
            }
        }
        let (ly_w, stat_w) = whole.regs();
        let (ly_s, stat_s) = split.regs();
        if (ly_w, stat_w & 0x7f, fw) != (ly_s, stat_s & 0x7f, fs) {
            return Err(Fail::new(
                "batching-dependence",
                format!(
                    "operation {} ({:?}): unsplit run gives LY={} STAT={:#04x} vblank={} stat={}, the same time delivered in pieces gives LY={} STAT={:#04x} vblank={} stat={}",
                    k, op, ly_w, stat_w, fw.0, fw.1, ly_s, stat_s, fs.0, fs.1
                ),
            ));
        }
        let p = lcd::position(t);
        let at = format!("operation {} ({:?}), {} clocks after power-on (reference: line {}, dot {}, mode {})", k, op, t, p.line, p.dot, p.mode);
        if ly_w != p.line {
            return Err(Fail::new("ly", format!("{}: LY = {}", at, ly_w)));
        }
        if stat_w & 3 != p.mode {
            return Err(Fail::new("mode", format!("{}: STAT mode bits = {}", at, stat_w & 3)));
        }
        if (stat_w & 4 != 0) != (p.line == lyc) {
            return Err(Fail::new("coincidence-bit", format!("{}: STAT coincidence bit = {} with LYC = {}", at, (stat_w >> 2) & 1, lyc)));
        }
        if stat_w & 0x78 != stat_en {
            return Err(Fail::new("stat-enable-bits", format!("{}: STAT enable bits read {:#04x}, written {:#04x}", at, stat_w & 0x78, stat_en)));
        }
        if fw.0 != want_vblank {
            let sig = if want_vblank { "vblank-missing" } else { "vblank-spurious" };
            return Err(Fail::new(sig, format!("{}: VBlank requested = {}, schedule says {}", at, fw.0, want_vblank)));
        }
        if let Some(ws) = want_stat {
            if fw.1 != ws {
                let sig = if ws { "stat-missing" } else { "stat-spurious" };
                return Err(Fail::new(sig, format!("{}: STAT requested = {}, schedule says {} (enable bits {:#04x}, LYC {})", at, fw.1, ws, stat_en, lyc)));
            }
        }
    }
    Ok(())
}

/// Level 2: the bus level with another device requesting in the same batches. TMA = TIMA =
/// 0xFF at the 16-clock rate makes TIMA overflow every 16 clocks, so every LCD event that
/// falls on a multiple of 16 clocks (LY becoming 144, every second line start, mode 0 of
/// every fourth line) shares its catch-up batch with a timer request; the LCD's own requests
/// must be what they are with the timer off (the requests are read from IF bits 0-1, the
/// timer's bit 2 is left alone).
fn arm_timer(m: &mut i::M) {
    m.write(0xff06, 0xff);
    m.write(0xff05, 0xff);
    m.write(0xff07, 0x05);
}

struct Machines {
    b1: BusDut,
    b2: BusDut,
}

fn exec(ms: &mut Machines, c: &Case, rec: &mut Rec, counting: bool) -> CaseResult {
    let mut st = Stats::default();
    let r = if c.level == 0 {
        let mut a = new_dev();
        let mut b = new_dev();
        guarded(|| exec_on(&mut a, &mut b, &c.ops, &mut st))
    } else {
        for m in [&mut ms.b1.m, &mut ms.b2.m] {
            m.reset_devices();
            m.write(0xff40, 0x91);
            if c.level == 2 {
                arm_timer(m);
            }
        }
        let (b1, b2) = (&mut ms.b1, &mut ms.b2);
        guarded(|| exec_on(b1, b2, &c.ops, &mut st))
    };
    if counting {
        rec.eval(1);
        rec.class(["level-device", "level-bus", "level-bus-timer-overflowing"][c.level.min(2) as usize], 1);
        let mut nt = false;
        for (name, on) in [("cross-143-144", st.cross_vblank), ("cross-153-0", st.cross_wrap), ("enabled-mode-entry", st.mode_entry), ("lyc-hit", st.lyc_hit), ("split-advance-with-event", st.split_event), ("register-write-without-cause-requests-nothing", st.write_without_cause)] {
            if on {
                rec.class(name, 1);
                nt = true;
            }
        }
        if nt {
            rec.nontrivial(fnv(format!("{:?}", c).as_bytes()));
        }
    }
    match r {
        Ok(v) => v,
        Err(msg) => Err(Fail::new("panic", format!("the LCD controller panicked: {}", msg))),
    }
}

fn op_strategy() -> impl Strategy<Value = Op> {
    let n = prop_oneof![
        2 => 1u32..40,
        3 => prop::sample::select(vec![80u32, 188, 268, 456, 4560, 65664, 70224, 140448]).prop_flat_map(|p| (p.saturating_sub(8))..=(p + 8)),
        2 => 1u32..1000,
        2 => 1u32..70224,
        1 => 1u32..200000,
        1 => 200_000u32..2_000_000,
        1 => (1u32..=24, 0u32..9).prop_map(|(k, d)| k * 70224 + 4 * d - 16),
        1 => (1u32..=7, 0u32..9).prop_map(|(k, d)| k * 262144 + 4 * d - 16),
    ]
    .prop_map(|n| (n / 4).max(1) * 4);
    let cuts = prop::collection::vec(any::<u16>(), 0..5);
    prop_oneof![
        2 => (0u8..16).prop_map(|m| Op::Stat(m << 3)),
        1 => any::<u8>().prop_map(Op::Stat),
        2 => prop_oneof![0u8..=160, any::<u8>(), prop::sample::select(vec![0u8, 1, 143, 144, 153])].prop_map(Op::Lyc),
        7 => (n, cuts).prop_map(|(n, c)| Op::Adv(n, c)),
    ]
}

fn run(rec: &mut Rec) {
    let rom = std_rom();
    let mut ms = Machines { b1: BusDut { m: i::M::new(&rom) }, b2: BusDut { m: i::M::new(&rom) } };
    // (a) the 4-clock walk
    let lycs = [0u8, 1, 77, 143, 144, 153, 200];
    let mut item = 0;
    for mask in 0..16u8 {
        for lyc in lycs {
            for level in 0..3u8 {
                item += 1;
                if !rec.ctx.mine(item) || rec.too_many() {
                    continue;
                }
                let steps = (4560 + 2 * lcd::FRAME as usize + 456) / 4;
                let mut ops = vec![Op::Stat(mask << 3), Op::Lyc(lyc)];
                ops.extend((0..steps).map(|_| Op::Adv(4, vec![])));
                let c = Case { level, ops };
                rec.current(&json!({"kind": "lcd-walk", "mask": mask, "lyc": lyc, "level": level}).to_string());
                rec.class("walk", 1);
                rec.eval(steps as u64);
                rec.nontrivial_direct(1);
                let mut st = Stats::default();
                let r = if level == 0 {
                    let mut a = new_dev();
                    let mut b = new_dev();
                    guarded(|| exec_on(&mut a, &mut b, &c.ops, &mut st))
                } else {
                    for m in [&mut ms.b1.m, &mut ms.b2.m] {
                        m.reset_devices();
                        m.write(0xff40, 0x91);
                        if level == 2 {
                            arm_timer(m);
                        }
                    }
                    let (b1, b2) = (&mut ms.b1, &mut ms.b2);
                    guarded(|| exec_on(b1, b2, &c.ops, &mut st))
                };
                match r {
                    Ok(Ok(())) => {}
                    Ok(Err(f)) => rec.violation(&format!("walk-{}", f.sig), json!({"kind": "lcd-walk", "mask": mask, "lyc": lyc, "level": level}), f.detail),
                    Err(msg) => rec.violation("panic", json!({"kind": "lcd-walk", "mask": mask, "lyc": lyc, "level": level}), msg),
                }
            }
        }
    }
    rec.exhaustive_part("16 STAT enable masks x 7 LYC values x 3 levels (device, bus, bus with TIMA overflowing every 16 clocks): every 4-clock slot of two frames plus the power-on vertical blank");
    // (b) generated histories
    let cases = rec.ctx.tier.pick(4000u32, 60_000);
    for level in 0..3u8 {
        let strat = prop::collection::vec(op_strategy(), 1..12).prop_map(move |ops| Case { level, ops });
        let cell = std::cell::RefCell::new(&mut ms);
        run_generated(rec, &format!("hist{}", level), cases, strat, case_json, |c, rec, counting| {
            if counting {
                rec.current(&case_json(c).to_string());
            }
            exec(&mut cell.borrow_mut(), c, rec, counting)
        });
    }
    rec.sample(|| case_json(&Case { level: 1, ops: vec![Op::Stat(0x40), Op::Lyc(0), Op::Adv(4560, vec![0x8000])] }));
    // program layer: the LCD as a whole core drives it
    crate::sysobs::program_layer(rec, "program-lcd", &[crate::sysobs::Dev::Lcd], crate::prog::Focus { lcd: 3, dma: 1, irq: 1, ..Default::default() }, rec.ctx.tier.pick(60u32, 1500), rec.ctx.tier.pick(14000u32, 60000), 1, program_nontrivial);
}

fn replay(case: &Value, rec: &mut Rec) {
    if crate::sysobs::replay_program(case, rec, &[crate::sysobs::Dev::Lcd]) {
        return;
    }
    let rom = std_rom();
    let mut ms = Machines { b1: BusDut { m: i::M::new(&rom) }, b2: BusDut { m: i::M::new(&rom) } };
    if case.get("kind").and_then(|k| k.as_str()) == Some("lcd-walk") {
        let g = |k: &str| case.get(k).and_then(|v| v.as_u64()).unwrap_or(0);
        let steps = (4560 + 2 * lcd::FRAME as usize + 456) / 4;
        let mut ops = vec![Op::Stat((g("mask") as u8) << 3), Op::Lyc(g("lyc") as u8)];
        ops.extend((0..steps).map(|_| Op::Adv(4, vec![])));
        let c = Case { level: g("level") as u8, ops };
        if let Err(f) = exec(&mut ms, &c, rec, true) {
            rec.violation(&format!("walk-{}", f.sig), case.clone(), f.detail);
        }
        return;
    }
    let c: Case = match case.get("case").cloned().and_then(|v| serde_json::from_value(v).ok()) {
        Some(c) => c,
        None => {
            rec.inconclusive("replay case is not a C14 history");
            return;
        }
    };
    if let Err(f) = exec(&mut ms, &c, rec, true) {
        rec.violation(&f.sig, case_json(&c), f.detail);
    }
}

fn program_nontrivial(o: &crate::sysobs::RunOutcome) -> bool {
    o.stats.stat_requests > 0 || o.stats.vblanks > 0
}
