//! C03 — the translation cache is transparent, including across ROM bank switches.

use super::common::*;
use crate::engine::*;
use crate::mach::{diff_state, i, j, Emu, Regs};
use crate::prog::alu_table;
use crate::rom::RomImage;
use proptest::prelude::*;
use serde_json::{json, Value};
use std::collections::HashMap;

pub static DEF: CheckDef = CheckDef {
    id: "C03",
    run,
    replay,
    rule: "multi-bank ROMs (MBC1 with 8 and 64 banks, MBC3 with 32 banks) whose banks hold different generated blocks (and different one-byte instructions on their last three bytes, where a block ends with the region) (different instructions, different lengths, different terminators) at the same eight slot addresses 0x4000 + k*0x40, bank-0 blocks, bank-0 trampolines (LD A,v; LD (bank register),A; JP slot) and a bank-0 block that runs through 0x3FFF into the switchable bank (its last instruction straddling the boundary in three of four ROMs). proptest histories of 1-60 operations over {run slot k, run bank-0 block j, guest switch (trampoline: value, register, slot), host switch (write to 0x0000-0x7FFF between blocks), switch back to the first bank, continue (follow the last block's own terminator), run the fall-through block}. Three executors are stepped with Core::run_code_block(): the jit build with its persistent cache, the jit build with a new empty cache before every step, the interpreter build. After every step all CPU/device scalars and the complete memory must be pairwise identical. Plus one long run of the bank-switching cache-pressure program (C04): the 8 MiB translation area is recycled every few iterations with different banks mapped, and addresses translated before a restart are executed again after it. Non-trivial = history that executes a slot address under a different mapped bank than the one it was first translated under (class revisit-after-switch), and ones that return to the first bank afterwards (switch-back); measured on the interpreter build; distinct by hash of (cartridge, history).",
    assumptions: &[
        "the interpreter build is the reference; blocks in the switchable region never write below 0x8000 (known finding C01 jit-self-bank-switch is excluded by construction)",
    ],
    required_classes: &["cache-restart-with-banks", "revisit-after-switch", "switch-back", "guest-switch", "host-switch", "fall-through-4000", "mbc1", "mbc1-large", "mbc3", "cold-cache-step", "continue-step", "block-at-the-last-bytes-of-the-bank"],
    exhaustive: false,
};

#[derive(Clone, Debug, serde::Serialize, serde::Deserialize)]
enum Op {
    RunSlot(u8),
    RunBank0(u8),
    /// trampoline: value index, register (0 = 0x2000, 1 = 0x4000, 2 = 0x6000), slot
    GuestSwitch(u8, u8, u8),
    HostSwitch(u16, u8),
    SwitchBack,
    Continue,
    FallThrough,
    /// run the block that starts on one of the last three bytes of the switchable bank
    /// (one-byte instructions that differ from bank to bank; the block ends with the region)
    RunEdge(u8),
}

#[derive(Clone, Debug, serde::Serialize, serde::Deserialize)]
struct Case {
    cart: u8,
    seed: u16,
    ops: Vec<Op>,
}

fn case_json(c: &Case) -> Value {
    json!({"kind": "cache-history", "case": c})
}

const CARTS: [(u8, u8, u8); 3] = [(0x03, 0x02, 0x03), (0x01, 0x05, 0x00), (0x13, 0x04, 0x03)];
const SWITCH_VALUES: [u8; 16] = [0, 1, 2, 3, 4, 5, 6, 7, 0x1f, 0x20, 0x21, 0x3f, 0x40, 0x60, 0x7f, 0xff];
const TRAMP_BASE: usize = 0x1000;
const BANK0_BASE: usize = 0x0200;
const FALL_START: usize = 0x3ff0;

fn slot_addr(k: u8) -> u16 {
    0x4000 + (k as u16 % 8) * 0x40
}
fn tramp_addr(vi: u8, reg: u8, slot: u8) -> u16 {
    (TRAMP_BASE + ((vi as usize % 16) * 3 + reg as usize % 3) * 8 * 8 + (slot as usize % 8) * 8) as u16
}

fn gen_block(x: &mut u64, table: &[u8], bank: usize, slot: usize) -> Vec<u8> {
    let mut code = Vec::new();
    if slot == 0 && bank > 0 {
        // two one-byte instructions first: the fall-through block may consume them as operand bytes
        code.push([0x00u8, 0x3c, 0x04, 0x0c, 0x14, 0x1c, 0x24, 0x2c][bank % 8]);
        code.push([0x2fu8, 0x37, 0x3f, 0x07, 0x0f, 0x17, 0x1f, 0x00][bank % 8]);
    }
    let n = 1 + (splitmix(*x ^ 77) % 7) as usize;
    for _ in 0..n {
        *x = splitmix(*x);
        let op = table[(*x as u16 as usize * table.len()) >> 16];
        code.push(op);
        if op == 0xcb {
            let b = (*x >> 16) as u8;
            code.push(if b & 7 == 6 { b ^ 1 } else { b });
            continue;
        }
        match models::sm83::length(op) {
            2 => code.push((*x >> 16) as u8),
            3 => {
                code.push((*x >> 16) as u8);
                code.push((*x >> 24) as u8);
            }
            _ => {}
        }
    }
    // mark: LD D,bank ; LD E,slot
    code.extend([0x16, bank as u8, 0x1e, slot as u8]);
    *x = splitmix(*x);
    let next_slot = slot_addr((*x >> 8) as u8);
    let b0 = (BANK0_BASE + ((*x >> 16) as usize % 8) * 0x20) as u16;
    match *x % 7 {
        0 => {
            code.push(0xc3);
            code.extend(next_slot.to_le_bytes());
        }
        1 => {
            code.push(0xc3);
            code.extend(b0.to_le_bytes());
        }
        2 => {
            // (no CALL: its return address would point into the middle of another bank's block)
            code.push(0xca);
            code.extend(next_slot.to_le_bytes());
            code.push(0xc3);
            code.extend(b0.to_le_bytes());
        }
        3 => code.push(0xc9),
        4 => {
            code.push(0x21);
            code.extend(next_slot.to_le_bytes());
            code.push(0xe9);
        }
        5 => {
            // conditional: JP NZ,next ; JP b0
            code.push(0xc2);
            code.extend(next_slot.to_le_bytes());
            code.push(0xc3);
            code.extend(b0.to_le_bytes());
        }
        _ => {
            code.push(0x18);
            code.push(0xfe_u8.wrapping_sub(code.len() as u8 - 1)); // JR back to the start of the block
        }
    }
    assert!(code.len() <= 0x40);
    code
}

fn build_rom(cart: u8, seed: u16) -> RomImage {
    let cfg = CARTS[cart as usize % CARTS.len()];
    // unused ROM bytes: RST 0 -> JP 0x4000, so a return into the gap after a block never runs away
    let mut rom = RomImage::new(cfg.0, cfg.1, cfg.2, 0xc7);
    rom.bytes[0..3].copy_from_slice(&[0xc3, 0x00, 0x40]);
    let table = alu_table();
    let banks = rom.banks();
    let mut x = (seed as u64) << 8 | cart as u64;
    for bank in 1..banks {
        for slot in 0..8 {
            let code = gen_block(&mut x, &table, bank, slot);
            let at = bank * 0x4000 + slot * 0x40;
            rom.bytes[at..at + code.len()].copy_from_slice(&code);
        }
    }
    // bank-0 blocks
    for jx in 0..8 {
        let mut code = gen_block(&mut x, &table, 0, jx);
        code.truncate(0x20);
        let at = BANK0_BASE + jx * 0x20;
        // keep it simple: ALU byte, mark, JP slot
        let mut c = vec![0x3c, 0x16, 0x00, 0x1e, jx as u8, 0xc3];
        c.extend(slot_addr(jx as u8 + 3).to_le_bytes());
        let _ = code;
        rom.bytes[at..at + c.len()].copy_from_slice(&c);
    }
    // trampolines
    for vi in 0..16u8 {
        for reg in 0..3u8 {
            for slot in 0..8u8 {
                let at = tramp_addr(vi, reg, slot) as usize;
                let target = [0x2000u16, 0x4000, 0x6000][reg as usize] + (vi as u16) * 0x100 % 0x2000;
                let mut c = vec![0x3e, SWITCH_VALUES[vi as usize], 0xea];
                c.extend(target.to_le_bytes());
                c.push(0xc3);
                c.extend(slot_addr(slot).to_le_bytes());
                rom.bytes[at..at + c.len()].copy_from_slice(&c);
            }
        }
    }
    // the last three bytes of every switchable bank: one-byte instructions that differ from
    // bank to bank (blocks starting there end with the region)
    for bank in 1..banks {
        let ops = [0x3cu8, 0x04, 0x0c, 0x14, 0x1c, 0x24, 0x2c, 0x3d];
        let at = bank * 0x4000 + 0x3ffd;
        rom.bytes[at] = ops[bank % 8];
        rom.bytes[at + 1] = ops[(bank + 3) % 8];
        rom.bytes[at + 2] = ops[(bank * 5 + 1) % 8];
    }
    // fall-through block: one-byte instructions up to 0x3FFF, no terminator; in three
    // of four ROMs the last instruction straddles 0x3FFF/0x4000 (operand bytes from the mapped bank)
    for a in FALL_START..0x4000 {
        rom.bytes[a] = [0x3c, 0x04, 0x0c, 0x14][a & 3];
    }
    match seed & 3 {
        1 => rom.bytes[0x3fff] = 0x06,
        2 => {
            rom.bytes[0x3ffe] = 0x01;
            rom.bytes[0x3fff] = 0x5a;
        }
        3 => rom.bytes[0x3fff] = 0x11,
        _ => {}
    }
    rom.fix_checksum();
    rom
}

struct World {
    warm: j::M,
    cold: j::M,
    int: i::M,
}

#[derive(Default)]
struct Stats {
    revisit: bool,
    back: bool,
    guest: bool,
    host: bool,
    fall: bool,
    cont: bool,
    edge: bool,
    left_domain: bool,
    excluded_known: bool,
}

fn exec(c: &Case, st: &mut Stats) -> CaseResult {
    let rom = build_rom(c.cart, c.seed);
    let mut w = World { warm: j::M::new(&rom), cold: j::M::new(&rom), int: i::M::new(&rom) };
    let regs = Regs { af: 0x0100, bc: 0x1234, de: 0x5678, hl: 0x9abc, sp: 0xdff0, pc: 0x0150, cycles: 0 };
    // a stack of return addresses for RET terminators
    let fill = |m: &mut dyn Emu| {
        m.fill_ram(c.seed as u64);
        for k in 0..128u16 {
            let a = slot_addr((k * 5 + 1) as u8);
            m.write(0xdf00 + 2 * k, a as u8);
            m.write(0xdf01 + 2 * k, (a >> 8) as u8);
        }
        m.set_regs(&regs);
    };
    fill(&mut w.warm);
    fill(&mut w.cold);
    fill(&mut w.int);
    let first_bank = w.int.rom_bank();
    let mut seen: HashMap<u16, Vec<usize>> = HashMap::new();
    for (k, op) in c.ops.iter().enumerate() {
        let mut set_pc: Option<u16> = None;
        let mut step = true;
        match op {
            Op::RunSlot(s) => set_pc = Some(slot_addr(*s)),
            Op::RunBank0(jx) => set_pc = Some((BANK0_BASE + (*jx as usize % 8) * 0x20) as u16),
            Op::GuestSwitch(vi, reg, slot) => {
                st.guest = true;
                set_pc = Some(tramp_addr(*vi, *reg, *slot));
            }
            Op::HostSwitch(addr, v) => {
                st.host = true;
                let a = *addr & 0x7fff;
                let v = if a < 0x2000 { (*v & 0xf0) | 0x0a } else { *v };
                w.warm.write(a, v);
                w.cold.write(a, v);
                w.int.write(a, v);
                step = false;
            }
            Op::SwitchBack => {
                for (a, v) in [(0x6000u16, 0u8), (0x4000, 0), (0x2000, first_bank as u8)] {
                    w.warm.write(a, v);
                    w.cold.write(a, v);
                    w.int.write(a, v);
                }
                step = false;
            }
            Op::Continue => {
                st.cont = true;
            }
            Op::FallThrough => {
                st.fall = true;
                set_pc = Some(FALL_START as u16 + 3);
            }
            Op::RunEdge(k) => {
                st.edge = true;
                set_pc = Some(0x7fff - (*k as u16 % 3));
            }
        }
        if !step {
            continue;
        }
        // keep SP inside the prepared stack area
        let sp = w.int.regs().sp;
        if !(0xdf20..=0xdfe0).contains(&sp) || sp & 1 != 0 {
            for m in [&mut w.warm as &mut dyn Emu, &mut w.cold, &mut w.int] {
                let mut r = m.regs();
                r.sp = 0xdf80;
                m.set_regs(&r);
            }
        }
        if let Some(pc) = set_pc {
            for m in [&mut w.warm as &mut dyn Emu, &mut w.cold, &mut w.int] {
                let mut r = m.regs();
                r.pc = pc as u32;
                m.set_regs(&r);
                m.set_run_state(crate::mach::RUN);
            }
        }
        let pc0 = w.int.regs().pc as u16;
        if (0x4000..0x8000).contains(&pc0) {
            let bank = w.int.rom_bank();
            let e = seen.entry(pc0).or_default();
            if let Some(first) = e.first().cloned() {
                if bank != first {
                    st.revisit = true;
                } else if e.iter().any(|b| *b != first) {
                    st.back = true;
                }
            }
            e.push(bank);
        }
        w.cold.cache_reset();
        let bytes: Vec<u8> = (0..12u16).map(|d| w.int.read(pc0.wrapping_add(d))).collect();
        let at = format!("operation {} ({:?}), block at {:#06x} with ROM bank {} mapped (bytes there: {})", k, op, pc0, w.int.rom_bank(), hex(&bytes));
        w.int.trace_enable(true);
        let _ = w.int.trace_take();
        let ri = guarded(|| w.int.step_block());
        w.int.trace_enable(false);
        let wrote_low = w.int.trace_take().iter().any(|t| t.0 == 1 && t.1 < 0x8000);
        if ri.is_err() {
            // the reference refuses (undefined opcode): outside the domain, the history ends here
            st.left_domain = true;
            return Ok(());
        }
        if wrote_low && pc0 >= 0x4000 {
            st.excluded_known = true;
            if std::env::var("C03_DEBUG").is_ok() {
                return Err(Fail::new("debug-excluded", at.clone()));
            }
            return Ok(());
        }
        if let Err(m) = guarded(|| w.warm.step_block()) {
            return Err(Fail::new("warm-panic", format!("{}: jit (warm cache) panicked: {}", at, m)));
        }
        if let Err(m) = guarded(|| w.cold.step_block()) {
            return Err(Fail::new("cold-panic", format!("{}: jit (cold cache) panicked: {}", at, m)));
        }
        if let Some(d) = diff_state(&w.cold, &w.int, &[]) {
            return Err(Fail::new("cold-vs-interpreter", format!("{}: jit with an empty cache differs from the interpreter: {}", at, d)));
        }
        if let Some(d) = diff_state(&w.warm, &w.int, &[]) {
            return Err(Fail::new("warm-vs-interpreter", format!("{}: jit with its warm cache differs from the interpreter (and from a cold cache): {}", at, d)));
        }
    }
    Ok(())
}

fn run_case(c: &Case, rec: &mut Rec, counting: bool) -> CaseResult {
    let mut st = Stats::default();
    let r = exec(c, &mut st);
    if counting {
        rec.eval(1);
        rec.class(["mbc1", "mbc1-large", "mbc3"][c.cart as usize % 3], 1);
        rec.class("cold-cache-step", c.ops.len() as u64);
        for (n, on) in [("revisit-after-switch", st.revisit), ("switch-back", st.back), ("guest-switch", st.guest), ("host-switch", st.host), ("fall-through-4000", st.fall), ("continue-step", st.cont), ("block-at-the-last-bytes-of-the-bank", st.edge)] {
            if on {
                rec.class(n, 1);
            }
        }
        if st.left_domain {
            rec.class("left-domain", 1);
        }
        if st.excluded_known {
            rec.excluded(1);
        }
        if st.revisit {
            rec.nontrivial(fnv(format!("{:?}", c).as_bytes()));
        }
    }
    r
}

fn op_strategy() -> impl Strategy<Value = Op> {
    prop_oneof![
        5 => (0u8..8).prop_map(Op::RunSlot),
        1 => (0u8..8).prop_map(Op::RunBank0),
        4 => (0u8..16, prop_oneof![4 => Just(0u8), 1 => Just(1u8), 1 => Just(2u8)], 0u8..8).prop_map(|(v, r, s)| Op::GuestSwitch(v, r, s)),
        3 => (prop_oneof![3 => 0x2000u16..0x4000, 1 => 0u16..0x8000], prop_oneof![3 => 0u8..8, 1 => any::<u8>()]).prop_map(|(a, v)| Op::HostSwitch(a, v)),
        1 => Just(Op::SwitchBack),
        3 => Just(Op::Continue),
        1 => Just(Op::FallThrough),
        2 => (0u8..3).prop_map(Op::RunEdge),
    ]
}

/// the bank-switching cache-pressure program of C04 on the three executors
fn run_pressure(rec: &mut Rec, steps: u32) {
    let case = json!({"kind": "cache-pressure-banks", "steps": steps});
    rec.current(&case.to_string());
    rec.eval(1);
    rec.class("cache-restart-with-banks", 1);
    rec.nontrivial(fnv(case.to_string().as_bytes()));
    let rom = crate::checks::c04::pressure_rom2();
    let mut w = World { warm: j::M::new(&rom), cold: j::M::new(&rom), int: i::M::new(&rom) };
    for step in 0..steps {
        let pc0 = w.int.regs().pc;
        // the cold executor translates every block anew: give it a fresh cache only
        // every few steps here, the blocks are 16 K instructions long
        if step % 4 == 0 {
            w.cold.cache_reset();
        }
        let r = guarded(|| {
            w.int.step_block();
            w.warm.step_block();
            w.cold.step_block();
        });
        if let Err(m) = r {
            rec.violation("pressure-panic", case.clone(), format!("step {} (block at {:#06x}): panicked: {}", step, pc0, m));
            return;
        }
        let sw = w.warm.scalars();
        let sc = w.cold.scalars();
        let si = w.int.scalars();
        for (k, (n, x)) in si.iter().enumerate() {
            if sw[k].1 != *x {
                rec.violation("pressure-warm-vs-interpreter", case.clone(), format!("step {} (block at {:#06x}, ROM bank {}): {}: warm cache {:#x}, interpreter {:#x}", step, pc0, w.int.rom_bank(), n, sw[k].1, x));
                return;
            }
            if sc[k].1 != *x {
                rec.violation("pressure-cold-vs-interpreter", case.clone(), format!("step {} (block at {:#06x}, ROM bank {}): {}: cold cache {:#x}, interpreter {:#x}", step, pc0, w.int.rom_bank(), n, sc[k].1, x));
                return;
            }
        }
    }
    if let Some(d) = diff_state(&w.warm, &w.int, &[]) {
        rec.violation("pressure-warm-vs-interpreter", case.clone(), format!("at the end: {}", d));
    }
}

/// what the two engines did in one block: registers, last_block_cycle_length, serial bytes
#[derive(Clone, Debug, PartialEq)]
pub struct BlockObs {
    pub regs: crate::mach::Regs,
    pub cycles: usize,
    pub serial: Vec<u8>,
}

pub struct RestartProbe {
    /// bytes of the translation area in use when the DAA block was entered
    pub level: usize,
    /// the filling made the area restart (the level asked for lies beyond the threshold)
    pub restarted: bool,
    pub last_filler_pc: u16,
    /// the whole bank of DAA under bank 1: (jit, interpreter)
    pub largest: (BlockObs, BlockObs),
    /// bank 1 executed at the address whose bank-2 block made the area restart
    pub after_restart: Option<(BlockObs, BlockObs)>,
}

/// The largest block there is (a whole bank of DAA, the instruction with the longest
/// translation) entered with the translation area filled to every level: filler blocks of
/// chosen length (runs of the two-cycle INC DE in bank 2, each entry address a new block) bring the area
/// to `target` bytes or to wherever the emulator restarts it; then the DAA block of bank 1
/// runs; and if the filling made the area restart, bank 1 is also executed at the address of
/// the bank-2 block that caused the restart. Both banks transmit their own byte before
/// returning. Shared by C03 (registers), C02 (cycles) and C18 (serial stream).
pub fn restart_probe(target: usize) -> Result<RestartProbe, String> {
    use crate::mach::Regs;
    let mut rom = crate::rom::RomImage::new(0x03, 0x02, 0x03, 0x00);
    for a in 0..0x4000 {
        rom.bytes[0x4000 + a] = 0x27;
        rom.bytes[0x8000 + a] = 0x13;
    }
    for bank in 1..3usize {
        let tail = [0x3e, 0x30 + bank as u8, 0xe0, 0x01, 0x3e, 0x81, 0xe0, 0x02, 0xc9];
        let at = bank * 0x4000 + 0x4000 - tail.len();
        rom.bytes[at..at + tail.len()].copy_from_slice(&tail);
    }
    rom.fix_checksum();
    let mut jit = j::M::new(&rom);
    let mut int = i::M::new(&rom);
    let regs = |pc: u16| Regs { af: 0x1200, bc: 0, de: 0, hl: 0, sp: 0xdff0, pc: pc as u32, cycles: 0 };
    guarded(|| {
        jit.write(0x2000, 2);
        let mut used = jit.cache_used();
        let mut entry = 0x4000u16;
        let mut restarted = false;
        let mut last_pc = 0u16;
        while used + 64 < target && entry < 0x7f00 {
            let want = ((target - used) / 39).clamp(1, 0x3ff0 - (entry as usize - 0x4000));
            let pc = ((0x7ff6 - want) as u16).max(entry);
            jit.set_regs(&regs(pc));
            jit.step_block();
            last_pc = pc;
            let now = jit.cache_used();
            if now < used {
                restarted = true;
                break;
            }
            used = now;
            entry = entry.wrapping_add(1).max(0x4000);
            if pc == entry - 1 && want < 8 {
                break;
            }
        }
        let level = jit.cache_used();
        jit.write(0x2000, 1);
        int.write(0x2000, 1);
        let _ = jit.serial_take();
        let _ = int.serial_take();
        let mut run = |pc: u16, jit: &mut j::M, int: &mut i::M| {
            jit.set_regs(&regs(pc));
            int.set_regs(&regs(pc));
            jit.step_block();
            let oj = BlockObs { regs: jit.regs(), cycles: jit.last_block_cycles(), serial: jit.serial_take() };
            int.step_block();
            let oi = BlockObs { regs: int.regs(), cycles: int.last_block_cycles(), serial: int.serial_take() };
            (oj, oi)
        };
        let largest = run(0x4000, &mut jit, &mut int);
        let after_restart = if restarted { Some(run(last_pc, &mut jit, &mut int)) } else { None };
        RestartProbe { level, restarted, last_filler_pc: last_pc, largest, after_restart }
    })
}

fn largest_block_at_level(rec: &mut Rec, target: usize) {
    let case = json!({"kind": "largest-block-at-fill-level", "target": target});
    rec.current(&case.to_string());
    rec.eval(1);
    rec.class("largest-block-at-fill-level", 1);
    rec.nontrivial(fnv(case.to_string().as_bytes()));
    match restart_probe(target) {
        Err(m) => rec.violation("largest-block-panic", case, format!("a whole bank of DAA entered with about {} bytes of the translation area in use: panicked: {}", target, m)),
        Ok(p) => {
            if p.restarted {
                rec.class("fill-level-beyond-the-restart-threshold", 1);
            }
            if p.largest.0 != p.largest.1 {
                rec.violation("largest-block-differs", case, format!("a whole bank of DAA entered with {} bytes of the translation area in use: jit {:?}, interpreter {:?}", p.level, p.largest.0, p.largest.1));
            } else if let Some((oj, oi)) = &p.after_restart {
                if oj != oi {
                    rec.violation("restart-block-under-other-bank", case, format!("the block at {:#06x} made the translation area restart while bank 2 was mapped; the same address executed under bank 1 afterwards: jit {:?}, interpreter {:?}", p.last_filler_pc, oj, oi));
                }
            }
        }
    }
}

fn run(rec: &mut Rec) {
    // translation-heavy (a new code cache per step): only some shards take part
    if rec.ctx.nshards >= 4 && rec.ctx.shard % 2 == 1 {
        return;
    }
    if rec.ctx.shard == 0 {
        run_pressure(rec, rec.ctx.tier.pick(700, 8000));
    }
    // the largest block at every fill level of the translation area (4 MiB .. 8 MiB)
    {
        let step = rec.ctx.tier.pick(0x10000usize, 0x2000);
        let workers = if rec.ctx.nshards >= 4 { rec.ctx.nshards / 2 } else { rec.ctx.nshards.max(1) };
        let my = if rec.ctx.nshards >= 4 { rec.ctx.shard / 2 } else { rec.ctx.shard };
        let mut k = 0usize;
        let mut target = 0x400000usize;
        while target < 0x7f0000 {
            if k % workers == my && !rec.too_many() {
                largest_block_at_level(rec, target);
            }
            k += 1;
            target += step;
        }
    }
    let cases = rec.ctx.tier.pick(400u32, 12_000);
    let strat = (0u8..3, any::<u16>(), prop::collection::vec(op_strategy(), 1..60)).prop_map(|(cart, seed, ops)| Case { cart, seed, ops });
    run_generated(rec, "hist", cases, strat, case_json, |c, rec, counting| {
        if counting {
            rec.current(&case_json(c).to_string());
        }
        run_case(c, rec, counting)
    });
    rec.sample(|| case_json(&Case { cart: 0, seed: 1, ops: vec![Op::RunSlot(2), Op::GuestSwitch(3, 0, 2), Op::Continue, Op::SwitchBack, Op::RunSlot(2)] }));
}

fn replay(case: &Value, rec: &mut Rec) {
    if case.get("kind").and_then(|k| k.as_str()) == Some("largest-block-at-fill-level") {
        largest_block_at_level(rec, (case.get("target").and_then(|v| v.as_u64()).unwrap_or(0x500000) as usize).min(0x7f0000));
        return;
    }
    if case.get("kind").and_then(|k| k.as_str()) == Some("cache-pressure-banks") {
        run_pressure(rec, case.get("steps").and_then(|v| v.as_u64()).unwrap_or(700) as u32);
        return;
    }
    let c: Case = match case.get("case").cloned().and_then(|v| serde_json::from_value(v).ok()) {
        Some(c) => c,
        None => {
            rec.inconclusive("replay case is not a C03 history");
            return;
        }
    };
    rec.current(&case.to_string());
    if let Err(f) = run_case(&c, rec, true) {
        rec.violation(&f.sig, case_json(&c), f.detail);
    }
}
