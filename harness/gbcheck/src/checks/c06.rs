//! C06 — interpreter control flow, instruction length and timing vs the SM83 reference.

use super::c05::{case_json, sig_of, twin_check, Pair, Scope};
use super::common::*;
use crate::engine::*;
use crate::mach::{Emu, Regs};
use models::sm83::{self, Ctl};
use serde_json::{json, Value};

pub static DEF: CheckDef = CheckDef {
    id: "C06",
    run,
    replay,
    rule: "all 512 first-byte / CB-byte encodings x all 16 flag states x PC values (ROM bank 0 and switchable bank, work RAM, high RAM, first and last bytes of each, 16-bit wrap) x SP values for stack-transferring instructions (0x0000, 0x0001, 0xFFFF, every region boundary, I/O and bank-register addresses) x ROM bank register values (2, 5, 0x1f, and 8 / 0x10 / 0 which wrap to banks 0 and 1 on the eight-bank cartridge, the other banks holding complemented bytes) for PCs at both ends of the switchable bank and at the end of bank 0 x all 256 JR displacements x jump/call targets; executed by interpreter::run_next_op and by the reference CPU on a twin machine's bus; compared: PC, SP, ordered bus writes (stack bytes and addresses), machine cycles, block-end flag vs the reference terminator set, status vs HALT/STOP/DI/EI/RETI, decoder length column; the 11 undefined opcodes must decode as invalid and be refused. The thorough tier additionally places every control-flow and stack instruction at every PC of ROM, work RAM and high RAM and runs every stack instruction with all 65536 SP values. Non-trivial = distinct (encoding, taken?, PC class, SP class) tuples, counted once each.",
    assumptions: &[
        "reference CPU models::sm83 and the literal published length/cycle tables inside it",
        "instruction bytes that cross the end of a fetch region are fetched through the normal memory map (what the hardware does)",
    ],
    required_classes: &["taken", "not-taken", "undefined-refused", "pc-region-end", "sp-wrap", "jr-wrap", "switched-bank", "bank-wrapped-to-0"],
    exhaustive: true,
};

const PCS: [u16; 22] = [
    0x0150, 0x0000, 0x3ffd, 0x3ffe, 0x3fff, 0x4000, 0x5123, 0x7ffd, 0x7ffe, 0x7fff, 0xc000, 0xcffd, 0xcffe, 0xcfff, 0xd000, 0xdffd,
    0xdffe, 0xdfff, 0xff80, 0xfffc, 0xfffd, 0xfffe,
];

const SPS: [u16; 30] = [
    0xdff0, 0x0000, 0x0001, 0x0002, 0xfffe, 0xffff, 0xc000, 0xc001, 0xd000, 0xd001, 0xe000, 0xe001, 0xfe00, 0xfe01, 0xfea0, 0xfea1,
    0xff00, 0xff01, 0xff80, 0xff81, 0x8000, 0x8001, 0xa000, 0xa001, 0x4001, 0x2001, 0xff10, 0xff11, 0xff47, 0xff05,
];

fn region_end(pc: u16) -> u32 {
    match pc {
        0x0000..=0x3fff => 0x4000,
        0x4000..=0x7fff => 0x8000,
        0xc000..=0xcfff => 0xd000,
        0xd000..=0xdfff => 0xe000,
        _ => 0xffff,
    }
}

fn uses_stack(op: u8) -> bool {
    matches!(op, 0xc0..=0xff) && (matches!(op & 0x0f, 0x1 | 0x5) || sm83::is_terminator(op)) && op != 0xe9 && op != 0xf3 && op != 0xfb
        && !matches!(op, 0xc2 | 0xca | 0xd2 | 0xda | 0xc3)
}

fn regs_for(pc: u16, sp: u16, f: u8, k: u32) -> Regs {
    Regs {
        af: (0x3c00 ^ (k << 8) & 0xff00) | f as u32,
        bc: 0x1234 ^ (k * 0x0101 & 0xffff),
        de: 0x5678,
        hl: 0xc2a0 + (k & 0xf),
        sp: sp as u32,
        pc: pc as u32,
        cycles: if k & 1 == 1 { 5 } else { 0 },
    }
}

fn status_of(ctl: Ctl) -> &'static [u8] {
    match ctl {
        Ctl::None => &[0],
        Ctl::Stop => &[1],
        Ctl::Halt => &[2],
        Ctl::Di => &[3],
        Ctl::Ei => &[4],
        Ctl::Reti => &[5],
    }
}

fn one(rec: &mut Rec, p: &mut Pair, code: &[u8], regs: &Regs, cells: &[(u16, u8)], fps: &mut std::collections::HashSet<u64>) {
    let pc = regs.pc as u16;
    let len = code.len() as u32;
    let straddle = pc as u32 + len > region_end(pc);
    rec.current(&case_json(code, regs, cells).to_string());
    rec.eval(1);
    let res = twin_check(p, code, regs, cells, Scope::Control);
    let sigbase = sig_of(code);
    match res {
        Err(f) => {
            let sig = if straddle { format!("straddle-{}", if f.sig.starts_with("interp-panic") { "panic" } else { "other" }) } else { f.sig.clone() };
            rec.violation(&sig, case_json(code, regs, cells), f.detail);
        }
        Ok(info) => {
            if info.end != info.out.terminator {
                rec.violation(
                    &format!("blockend-{}", sigbase),
                    case_json(code, regs, cells),
                    format!("{}: block-end flag {} but reference terminator set says {}", enc_name(code), info.end, info.out.terminator),
                );
            }
            if !status_of(info.out.ctl).contains(&info.status) {
                rec.violation(
                    &format!("status-{}", sigbase),
                    case_json(code, regs, cells),
                    format!("{}: status {} but the instruction's halt/IME effect is {:?}", enc_name(code), info.status, info.out.ctl),
                );
            }
            match info.out.taken {
                Some(true) => rec.class("taken", 1),
                Some(false) => rec.class("not-taken", 1),
                None => {}
            }
            let pc_class = if straddle {
                3
            } else if pc as u32 + len == region_end(pc) {
                rec.class("pc-region-end", 1);
                2
            } else if pc == 0 || pc >= 0xff80 {
                1
            } else {
                0
            };
            let sp = regs.sp as u16;
            let sp_class = if sp <= 2 || sp >= 0xfffe {
                if uses_stack(code[0]) {
                    rec.class("sp-wrap", 1);
                }
                2
            } else if sp != 0xdff0 {
                1
            } else {
                0
            };
            let fp = fnv(&[code[0], code.get(1).cloned().unwrap_or(0) & if code[0] == 0xcb { 0xff } else { 0 }, info.out.taken.map(|t| t as u8 + 1).unwrap_or(0), pc_class, sp_class]);
            fps.insert(fp);
        }
    }
}

fn run(rec: &mut Rec) {
    let mut p = Pair::new();
    let mut fps = std::collections::HashSet::new();
    // item list: 256 unprefixed + 256 CB
    for idx in 0..512usize {
        if !rec.ctx.mine(idx) || rec.too_many() {
            continue;
        }
        let (op, cb) = if idx < 256 { (idx as u8, None) } else { (0xcbu8, Some((idx - 256) as u8)) };
        if idx == 0xcb {
            continue;
        }
        // decoder columns
        let bytes = [op, cb.unwrap_or(0x34), 0x12];
        let dec = guarded(|| gbint::decoder::decode(&bytes));
        if sm83::is_undefined(op) {
            // must decode as invalid and be refused by the interpreter
            let invalid = matches!(&dec, Ok((gbint::decoder::ops::Op::Invalid(_), _, _)));
            if !invalid {
                rec.violation(&format!("undef-decodes-{:02x}", op), json!({"kind":"decode","code":hex(&bytes)}), format!("undefined opcode {:02x} decodes as a defined operation", op));
            }
            for (k, pc) in [0x0150u16, 0x4000, 0xc000, 0xff80].iter().enumerate() {
                for f in [0x00u8, 0xf0] {
                    let regs = regs_for(*pc, 0xdff0, f, k as u32);
                    let code = [op, 0x00, 0x00];
                    place_code(&mut p.real, *pc, &code);
                    p.real.set_regs(&regs);
                    rec.current(&json!({"kind":"undefined","code":hex(&code),"regs":regs}).to_string());
                    let before = crate::mach::digest(&p.real, &[]);
                    let r = {
                        let real = &mut p.real;
                        guarded(|| real.interp_op())
                    };
                    rec.eval(1);
                    let after = crate::mach::digest(&p.real, &[]);
                    match r {
                        Err(_) => {
                            rec.class("undefined-refused", 1);
                            if before != after {
                                rec.violation(&format!("undef-sideeffect-{:02x}", op), json!({"kind":"undefined","code":hex(&code),"regs":regs}), "undefined opcode changed machine state before being refused");
                            }
                        }
                        Ok(_) => {
                            rec.violation(&format!("undef-executed-{:02x}", op), json!({"kind":"undefined","code":hex(&code),"regs":regs}), format!("undefined opcode {:02x} was executed as something else", op));
                        }
                    }
                    p.real.restore(&p.snap);
                    fps.insert(fnv(&[op, 0xee, *pc as u8, f]));
                }
            }
            continue;
        }
        let len = sm83::length(op) as usize;
        match &dec {
            Ok((_, l, _)) if *l == len => {}
            Ok((_, l, _)) => rec.violation(&format!("declen-{}", sig_of(&bytes)), json!({"kind":"decode","code":hex(&bytes)}), format!("decoder length {} for {:02x}, documented {}", l, op, len)),
            Err(m) => rec.violation(&format!("decpanic-{}", sig_of(&bytes)), json!({"kind":"decode","code":hex(&bytes)}), format!("decoder panicked: {}", m)),
        }
        let stack = uses_stack(op);
        let is_jr = matches!(op, 0x18 | 0x20 | 0x28 | 0x30 | 0x38);
        let is_abs = matches!(op, 0xc2 | 0xc3 | 0xc4 | 0xca | 0xcc | 0xcd | 0xd2 | 0xd4 | 0xda | 0xdc);
        let mut k = 0u32;
        for f in LEGAL_F {
            for &pc in PCS.iter() {
                let sps: &[u16] = if stack { &SPS } else { &SPS[..1] };
                for &sp in sps {
                    k += 1;
                    let mut code = vec![op];
                    if let Some(cb) = cb {
                        code.push(cb);
                    } else if len == 2 {
                        code.push((k * 37 + 5) as u8);
                    } else if len == 3 {
                        let t: u16 = [0x0000u16, 0x0040, 0x3fff, 0x4000, 0x7fff, 0xc000, 0xd000, 0xff80, 0xfffe, 0xffff, 0x8000, 0x1234][(k % 12) as usize];
                        code.push(t as u8);
                        code.push((t >> 8) as u8);
                    }
                    let regs = regs_for(pc, sp, f, k);
                    // stack contents for RET/POP come from the snapshot fill (deterministic)
                    one(rec, &mut p, &code, &regs, &[], &mut fps);
                }
            }
            // the same instruction fetched from a switched ROM bank (register values 2, 5, 0x1f,
            // and 8 / 0x10 which wrap to bank 0 on the eight-bank cartridge); every other bank
            // holds the complemented bytes at the same offset
            if f == 0x00 || f == 0xf0 {
                for &bank in &[2u8, 5, 8, 0x10, 0x1f, 0] {
                    for &pc in &[0x3ffdu16, 0x3ffe, 0x3fff, 0x4000, 0x5123, 0x7ffd, 0x7ffe, 0x7fff] {
                        k += 1;
                        let mut code = vec![op];
                        if let Some(cb) = cb {
                            code.push(cb);
                        } else if len == 2 {
                            code.push((k * 37 + 5) as u8);
                        } else if len == 3 {
                            let t: u16 = [0x0040u16, 0x4000, 0x7fff, 0xc000, 0xff80, 0x1234][(k % 6) as usize];
                            code.push(t as u8);
                            code.push((t >> 8) as u8);
                        }
                        let regs = regs_for(pc, 0xdff0, f, k);
                        one(rec, &mut p, &code, &regs, &[(0x2100, bank)], &mut fps);
                        rec.class("switched-bank", 1);
                        if super::c05::mapped_bank_std(bank) == 0 {
                            rec.class("bank-wrapped-to-0", 1);
                        }
                    }
                }
            }
            if is_jr {
                for d in 0..=255u8 {
                    for &pc in &[0x0000u16, 0x0001, 0x007e, 0x0150, 0x3f80, 0x3ffe, 0x4000, 0x7ffe, 0xc000, 0xcf90, 0xdffe, 0xff80, 0xfff0, 0xfffd] {
                        let regs = regs_for(pc, 0xdff0, f, d as u32);
                        let code = [op, d];
                        let target = (pc as u32 + 2).wrapping_add(d as i8 as i32 as u32);
                        if target > 0xffff {
                            rec.class("jr-wrap", 1);
                        }
                        one(rec, &mut p, &code, &regs, &[], &mut fps);
                    }
                }
            }
            if is_abs {
                for t in 0..256u32 {
                    let target = (t * 257) as u16;
                    let regs = regs_for(0x0150, 0xdff0, f, t);
                    let code = [op, target as u8, (target >> 8) as u8];
                    one(rec, &mut p, &code, &regs, &[], &mut fps);
                }
            }
        }
        // thorough tier: control-flow and stack instructions at every PC of every executable
        // region and with every SP value (the quick tier uses the boundary sets above)
        if rec.ctx.tier == Tier::Thorough && cb.is_none() && (sm83::is_terminator(op) || stack) {
            let mut kk = 0u32;
            for f in [0x00u8, 0xf0, 0x80, 0x10] {
                for pc in (0x0000u32..0x8000).chain(0xc000..0xe000).chain(0xff80..0xffff) {
                    if is_jr && pc % 5 != 0 {
                        continue;
                    }
                    kk += 1;
                    let mut code = vec![op];
                    if len == 2 {
                        code.push((kk * 37 + 5) as u8);
                    } else if len == 3 {
                        code.push((kk * 13) as u8);
                        code.push((kk * 7 >> 3) as u8);
                    }
                    let regs = regs_for(pc as u16, 0xdff0, f, kk);
                    one(rec, &mut p, &code, &regs, &[], &mut fps);
                }
                if stack {
                    for sp in 0..=0xffffu32 {
                        kk += 1;
                        let mut code = vec![op];
                        if len == 3 {
                            code.push(0x34);
                            code.push(0x12);
                        }
                        let regs = regs_for(0x0150, sp as u16, f, kk);
                        one(rec, &mut p, &code, &regs, &[], &mut fps);
                    }
                }
            }
            rec.class("thorough-all-pc-sp", 1);
        }
        rec.sample(|| case_json(&[op, cb.unwrap_or(0)][..if cb.is_some() { 2 } else { 1 }], &regs_for(0x0150, 0xdff0, 0x80, 1), &[]));
    }
    for fp in fps {
        rec.nontrivial(fp);
    }
}

fn replay(case: &Value, rec: &mut Rec) {
    match case.get("kind").and_then(|k| k.as_str()) {
        Some("undefined") | Some("decode") => {
            // re-run the opcode's item
            let code = unhex(case.get("code").and_then(|c| c.as_str()).unwrap_or("00"));
            let mut p = Pair::new();
            let bytes = [code[0], code.get(1).cloned().unwrap_or(0), code.get(2).cloned().unwrap_or(0)];
            let dec = guarded(|| gbint::decoder::decode(&bytes));
            rec.eval(1);
            if sm83::is_undefined(code[0]) {
                if !matches!(&dec, Ok((gbint::decoder::ops::Op::Invalid(_), _, _))) {
                    rec.violation(&format!("undef-decodes-{:02x}", code[0]), case.clone(), "undefined opcode decodes as a defined operation");
                }
                let regs: Regs = serde_json::from_value(case.get("regs").cloned().unwrap_or(Value::Null)).unwrap_or(regs_for(0x150, 0xdff0, 0, 0));
                place_code(&mut p.real, regs.pc as u16, &bytes);
                p.real.set_regs(&regs);
                let r = {
                    let real = &mut p.real;
                    guarded(|| real.interp_op())
                };
                if r.is_ok() {
                    rec.violation(&format!("undef-executed-{:02x}", code[0]), case.clone(), "undefined opcode was executed as something else");
                }
            } else if let Ok((_, l, _)) = dec {
                if l != sm83::length(code[0]) as usize {
                    rec.violation(&format!("declen-{}", sig_of(&bytes)), case.clone(), "decoder length differs from the documented length");
                }
            }
        }
        _ => {
            let code = unhex(case.get("code").and_then(|c| c.as_str()).unwrap_or(""));
            let regs: Regs = match serde_json::from_value(case.get("regs").cloned().unwrap_or(Value::Null)) {
                Ok(r) => r,
                Err(_) => {
                    rec.inconclusive("replay case has no regs");
                    return;
                }
            };
            if code.is_empty() {
                rec.inconclusive("replay case has no code");
                return;
            }
            let mut p = Pair::new();
            let mut fps = std::collections::HashSet::new();
            one(rec, &mut p, &code, &regs, &[], &mut fps);
        }
    }
}
