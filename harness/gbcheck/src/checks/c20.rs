//! C20 — debugger command parsing and disassembly are total and agree with the decoder.

use super::common::*;
use crate::engine::*;
use gbint::debug::command::{parse_address, parse_command, Command};
use gbint::debug::disassembly::disassemble;
use proptest::prelude::*;
use serde_json::{json, Value};

pub static DEF: CheckDef = CheckDef {
    id: "C20",
    run,
    replay,
    rule: "(a) all 65536 addresses, each written in decimal (plain and zero-padded) and in 0x-hexadecimal (lower, upper, mixed-case digits, zero-padded), passed bare (with ASCII and Unicode white space around) to parse_address and inside break / p / print lines with generated letter case and padding to parse_command: must give exactly that value / command. (b) an enumerated family of malformed and out-of-range numerals (65536.., 0x10000.., empty, 0x, 12a, -1, 1e3, 0x12g, embedded spaces, digits beyond 64 characters; a two-, three- or four-byte character at every position next to a leading 0 / 0x / digit) and proptest numerals around the range limit: must be rejected. (c) proptest lines: arbitrary Unicode strings, printable strings, and structured lines (command words in random case, unknown words, arguments) - parse_command must return without panicking and agree with the reference grammar. (d) proptest byte sequences composed of complete instructions (all 256 first bytes incl. CB-prefixed and undefined ones, arbitrary operands, up to 64 instructions, any base address incl. wrap past 0xFFFF): disassemble() rendered through Display must tile the input exactly - addresses, lengths and bytes - and agree with decoder::decode and with the reference length table. Long listings: generated listings of 0xFFF0 to 0x30005 bytes (just under, exactly and well over 64 KiB) at three base addresses get the same tiling check. Non-trivial = line that parses to a command / sequence with at least one three-byte and one CB-prefixed instruction; distinct by hash of the input.",
    assumptions: &[
        "reference grammar: tokens are separated by Unicode white space; the first token lower-cased selects the command; decimal = [0-9]+, hexadecimal = 0x[0-9a-fA-F]+, value <= 65535",
        "gray zone, either outcome accepted but a returned value must equal the digits: a leading '+', an upper-case 0X prefix, non-ASCII digits; command words that only match after non-ASCII case folding; extra tokens after a complete command; lines whose first token is not a command word are only required not to panic",
        "instruction lengths: models::sm83::LENGTHS (published table); undefined opcodes are one byte",
    ],
    required_classes: &["address-decimal", "address-hex", "address-in-command", "malformed-rejected", "out-of-range-rejected", "unicode-line", "command-recognised", "disasm-three-byte-and-cb", "disasm-wraps", "gray-numeral", "disasm-listing-of-64k-or-more"],
    exhaustive: true,
};

#[derive(Debug, PartialEq, Eq, Clone, Copy)]
enum AddrExp {
    Exact(u16),
    Reject,
    /// gray: None or exactly this value
    Gray(Option<u16>),
}

fn ascii_digits_value(s: &str, radix: u32) -> Option<u16> {
    if s.is_empty() {
        return None;
    }
    let mut v: u32 = 0;
    for c in s.chars() {
        let d = c.to_digit(radix)?;
        if !c.is_ascii() {
            return None;
        }
        v = v.checked_mul(radix)?.checked_add(d)?;
        if v > 0xffff {
            // keep scanning for validity of the digits but the value is out of range
            v = 0x1_0000;
        }
    }
    if v > 0xffff {
        None
    } else {
        Some(v as u16)
    }
}

fn all_ascii_digits(s: &str, radix: u32) -> bool {
    !s.is_empty() && s.chars().all(|c| c.is_ascii() && c.to_digit(radix).is_some())
}

/// reference grammar for one address token (already free of surrounding white space)
fn expect_address(tok: &str) -> AddrExp {
    if all_ascii_digits(tok, 10) {
        return match ascii_digits_value(tok, 10) {
            Some(v) => AddrExp::Exact(v),
            None => AddrExp::Reject,
        };
    }
    if let Some(rest) = tok.strip_prefix("0x") {
        if all_ascii_digits(rest, 16) {
            return match ascii_digits_value(rest, 16) {
                Some(v) => AddrExp::Exact(v),
                None => AddrExp::Reject,
            };
        }
        if let Some(r2) = rest.strip_prefix('+') {
            if all_ascii_digits(r2, 16) {
                return AddrExp::Gray(ascii_digits_value(r2, 16));
            }
        }
        return if rest.chars().any(|c| !c.is_ascii() && c.is_numeric()) { AddrExp::Gray(None) } else { AddrExp::Reject };
    }
    if let Some(rest) = tok.strip_prefix("0X") {
        if all_ascii_digits(rest, 16) {
            return AddrExp::Gray(ascii_digits_value(rest, 16));
        }
        return AddrExp::Reject;
    }
    if let Some(rest) = tok.strip_prefix('+') {
        if all_ascii_digits(rest, 10) {
            return AddrExp::Gray(ascii_digits_value(rest, 10));
        }
        if let Some(r2) = rest.strip_prefix("0x") {
            if all_ascii_digits(r2, 16) {
                return AddrExp::Gray(ascii_digits_value(r2, 16));
            }
        }
    }
    if tok.chars().any(|c| !c.is_ascii() && c.is_numeric()) {
        return AddrExp::Gray(None);
    }
    AddrExp::Reject
}

fn check_addr_result(got: Option<u16>, exp: AddrExp) -> Result<(), String> {
    match exp {
        AddrExp::Exact(v) => {
            if got == Some(v) {
                Ok(())
            } else {
                Err(format!("parsed as {:?}, must be Some({})", got, v))
            }
        }
        AddrExp::Reject => {
            if got.is_none() {
                Ok(())
            } else {
                Err(format!("parsed as {:?}, must be rejected", got))
            }
        }
        AddrExp::Gray(v) => match (got, v) {
            (None, _) => Ok(()),
            (Some(g), Some(v)) if g == v => Ok(()),
            (Some(g), _) => Err(format!("parsed as {}, which is not the value of its digits", g)),
        },
    }
}

fn test_parse_address(s: &str) -> CaseResult {
    let got = match guarded(|| parse_address(s)) {
        Ok(v) => v,
        Err(msg) => return Err(Fail::new("parse-address-panic", format!("parse_address({:?}) panicked: {}", s, msg))),
    };
    let tok = s.trim();
    let exp = if tok.chars().any(|c| c.is_whitespace()) { AddrExp::Reject } else { expect_address(tok) };
    check_addr_result(got, exp).map_err(|e| {
        let sig = match exp {
            AddrExp::Exact(_) => "address-wellformed",
            AddrExp::Reject => "address-malformed-accepted",
            AddrExp::Gray(_) => "address-gray-wrong-value",
        };
        Fail::new(sig, format!("parse_address({:?}): {}", s, e))
    })
}

#[derive(Debug, PartialEq, Eq, Clone, Copy)]
enum CmdExp {
    /// must be exactly this
    Exact(Option<Command>),
    /// None or this
    Either(Command),
    /// None or (BreakSet / ReadMemory of exactly this value, if given)
    GrayAddr(bool, Option<u16>),
    Unasserted,
}

fn expect_command(line: &str) -> CmdExp {
    let toks: Vec<&str> = line.split(|c: char| c.is_whitespace()).filter(|t| !t.is_empty()).collect();
    if toks.is_empty() {
        return CmdExp::Exact(None);
    }
    let first = toks[0];
    let lowered = first.to_lowercase();
    let known = ["break", "c", "continue", "info", "p", "print", "s", "step"];
    if !first.is_ascii() {
        // only matches after non-ASCII case folding (or not at all): not asserted
        return CmdExp::Unasserted;
    }
    if !known.contains(&lowered.as_str()) {
        return CmdExp::Unasserted;
    }
    let extra = |n: usize| toks.len() > n;
    match lowered.as_str() {
        "c" | "continue" => {
            if extra(1) {
                CmdExp::Either(Command::Continue)
            } else {
                CmdExp::Exact(Some(Command::Continue))
            }
        }
        "s" | "step" => {
            if extra(1) {
                CmdExp::Either(Command::Step)
            } else {
                CmdExp::Exact(Some(Command::Step))
            }
        }
        "info" => {
            if toks.len() < 2 {
                return CmdExp::Exact(None);
            }
            if !toks[1].is_ascii() {
                return CmdExp::Unasserted;
            }
            let sub = toks[1].to_lowercase();
            if sub == "reg" || sub == "registers" {
                if extra(2) {
                    CmdExp::Either(Command::ReadRegisters)
                } else {
                    CmdExp::Exact(Some(Command::ReadRegisters))
                }
            } else {
                CmdExp::Exact(None)
            }
        }
        w => {
            let is_break = w == "break";
            if toks.len() < 2 {
                return CmdExp::Exact(None);
            }
            let mk = |v: u16| if is_break { Command::BreakSet(v) } else { Command::ReadMemory(v) };
            match expect_address(toks[1]) {
                AddrExp::Exact(v) => {
                    if extra(2) {
                        CmdExp::Either(mk(v))
                    } else {
                        CmdExp::Exact(Some(mk(v)))
                    }
                }
                AddrExp::Reject => CmdExp::Exact(None),
                AddrExp::Gray(v) => CmdExp::GrayAddr(is_break, v),
            }
        }
    }
}

fn test_parse_command(line: &str) -> Result<Option<Command>, Fail> {
    let got = match guarded(|| parse_command(line)) {
        Ok(v) => v,
        Err(msg) => return Err(Fail::new("parse-command-panic", format!("parse_command({:?}) panicked: {}", line, msg))),
    };
    let exp = expect_command(line);
    let ok = match exp {
        CmdExp::Exact(e) => got == e,
        CmdExp::Either(c) => got.is_none() || got == Some(c),
        CmdExp::GrayAddr(is_break, v) => match (got, v) {
            (None, _) => true,
            (Some(Command::BreakSet(g)), Some(v)) => is_break && g == v,
            (Some(Command::ReadMemory(g)), Some(v)) => !is_break && g == v,
            _ => false,
        },
        CmdExp::Unasserted => true,
    };
    if ok {
        Ok(got)
    } else {
        let sig = match (exp, got) {
            (CmdExp::Exact(Some(_)), None) => "command-not-recognised",
            (CmdExp::Exact(None), Some(_)) => "command-malformed-accepted",
            _ => "command-wrong-result",
        };
        Err(Fail::new(sig, format!("parse_command({:?}) = {:?}, reference grammar: {:?}", line, got, exp)))
    }
}

/// parse one rendered disassembly line: (address, bytes)
fn parse_display(s: &str) -> Option<(u16, Vec<u8>)> {
    let b = s.as_bytes();
    if b.len() < 20 || &s[0..2] != "0x" || &s[6..8] != "  " {
        return None;
    }
    let addr = u16::from_str_radix(&s[2..6], 16).ok()?;
    let mut bytes = Vec::new();
    let mut ended = false;
    for k in 0..4 {
        let slot = &s[8 + 3 * k..8 + 3 * k + 3];
        if slot == "   " {
            ended = true;
            continue;
        }
        if ended || !slot.ends_with(' ') {
            return None;
        }
        bytes.push(u8::from_str_radix(&slot[0..2], 16).ok()?);
    }
    Some((addr, bytes))
}

fn ref_len(first: u8) -> usize {
    models::sm83::LENGTHS[first as usize].max(1) as usize
}

fn test_disasm(base: u16, instrs: &[Vec<u8>]) -> CaseResult {
    let flat: Vec<u8> = instrs.iter().flatten().cloned().collect();
    let out = match guarded(|| disassemble(base, &flat).iter().map(|i| i.to_string()).collect::<Vec<String>>()) {
        Ok(v) => v,
        Err(msg) => return Err(Fail::new("disassemble-panic", format!("disassemble({:#06x}, {}) panicked: {}", base, hex(&flat), msg))),
    };
    if out.len() != instrs.len() {
        return Err(Fail::new("disasm-count", format!("{} instructions were assembled at {:#06x} ({}), the disassembly has {} lines", instrs.len(), base, hex(&flat), out.len())));
    }
    let mut addr = base;
    let mut cursor = 0usize;
    for (k, line) in out.iter().enumerate() {
        let (a, bytes) = match parse_display(line) {
            Some(v) => v,
            None => return Err(Fail::new("disasm-format", format!("line {} {:?} does not have the address / bytes / text layout", k, line))),
        };
        let want = &instrs[k];
        if a != addr {
            return Err(Fail::new("disasm-address", format!("line {} {:?}: address {:#06x}, expected {:#06x} (base {:#06x} + preceding lengths)", k, line, a, addr, base)));
        }
        if &bytes != want {
            let sig = if bytes.len() != want.len() { "disasm-length" } else { "disasm-bytes" };
            return Err(Fail::new(sig, format!("line {} {:?}: bytes {}, the instruction there is {}", k, line, hex(&bytes), hex(want))));
        }
        let dl = match guarded(|| gbint::decoder::decode(&flat[cursor..]).1) {
            Ok(l) => l,
            Err(msg) => return Err(Fail::new("decoder-panic", format!("decode panicked on a complete instruction {}: {}", hex(want), msg))),
        };
        if dl != want.len() || dl != ref_len(want[0]) {
            return Err(Fail::new("decoder-length", format!("decoder length {} for {} (reference table {})", dl, hex(want), ref_len(want[0]))));
        }
        cursor += want.len();
        addr = addr.wrapping_add(want.len() as u16);
    }
    Ok(())
}

/// a listing of exactly `size` bytes made of complete instructions, from a seed
fn long_listing(seed: u64, size: usize) -> Vec<Vec<u8>> {
    let mut x = splitmix(seed);
    let mut out: Vec<Vec<u8>> = Vec::new();
    let mut total = 0usize;
    while total < size {
        x = splitmix(x);
        let mut op = x as u8;
        let left = size - total;
        if ref_len(op) > left {
            op = 0x00;
        }
        let n = ref_len(op);
        let mut v = vec![op];
        if n > 1 {
            v.push((x >> 8) as u8);
        }
        if n > 2 {
            v.push((x >> 16) as u8);
        }
        total += n;
        out.push(v);
    }
    out
}

fn long_json(base: u16, seed: u64, size: usize) -> Value {
    json!({"kind": "disasm-long", "base": base, "seed": seed, "size": size})
}

fn hex_forms(v: u16) -> Vec<String> {
    vec![format!("0x{:x}", v), format!("0x{:X}", v), format!("0x{:04x}", v), format!("0x{:08X}", v), {
        // mixed case digits
        let s = format!("{:x}", v);
        let m: String = s.chars().enumerate().map(|(i, c)| if i % 2 == 0 { c.to_ascii_uppercase() } else { c }).collect();
        format!("0x{}", m)
    }]
}

const WS: [&str; 8] = ["", " ", "  ", "\t", "\u{a0}", "\u{2003}", " \u{3000}", "\u{2028}"];

fn mixed_case(word: &str, bits: u32) -> String {
    word.chars().enumerate().map(|(i, c)| if bits >> (i % 32) & 1 == 1 { c.to_ascii_uppercase() } else { c }).collect()
}

fn run(rec: &mut Rec) {
    // (a) all addresses
    for v in 0..=0xffffu32 {
        if !rec.ctx.mine(v as usize) || rec.too_many() {
            continue;
        }
        let v = v as u16;
        let h = splitmix(v as u64 ^ rec.ctx.seed << 20);
        let mut forms: Vec<(String, bool)> = vec![(format!("{}", v), false), (format!("{:07}", v), false)];
        forms.extend(hex_forms(v).into_iter().map(|s| (s, true)));
        for (fi, (f, is_hex)) in forms.iter().enumerate() {
            let pad_l = WS[((h >> (fi * 3)) & 7) as usize];
            let pad_r = WS[((h >> (fi * 3 + 24)) & 7) as usize];
            let bare = format!("{}{}{}", pad_l, f, pad_r);
            rec.eval(2);
            rec.class(if *is_hex { "address-hex" } else { "address-decimal" }, 1);
            rec.nontrivial_direct(1);
            if let Err(e) = test_parse_address(&bare) {
                rec.violation(&e.sig, json!({"kind": "address", "text": bare}), e.detail);
            }
            let word = ["break", "p", "print"][(h >> 40) as usize % 3];
            let line = format!("{}{}{}{}{}", pad_r, mixed_case(word, (h >> 8) as u32), if pad_l.is_empty() { " " } else { pad_l }, f, pad_r);
            rec.class("address-in-command", 1);
            match test_parse_command(&line) {
                Ok(Some(_)) => rec.class("command-recognised", 1),
                Ok(None) => {}
                Err(e) => rec.violation(&e.sig, json!({"kind": "line", "text": line}), e.detail),
            }
        }
        if v % 9001 == 0 {
            rec.sample(|| json!({"kind": "address", "text": format!("0x{:04X}", v)}));
        }
    }
    rec.exhaustive_part("all 65536 addresses x 7 notations, bare and inside break / p / print lines");
    // (b) malformed / out of range numerals, enumerated
    if rec.ctx.mine(1) {
        let mut bad: Vec<String> = vec!["", " ", "0x", "0X", "x10", "12a", "-1", "- 1", "1e3", "0x12g", "0xg", "1 2", "0x 12", "0x1 2", "65536", "65537", "99999", "100000", "0x10000", "0x1ffff", "0xfffff", "0x00010000", "4294967296", "0x100000000", "18446744073709551616", "1_000", "0b101", "0o17", "#ff", "$ff", "ffh", "0xffffh", "ffff", "abc", "٣", "0x١", "１２", "½", "0x-1", "--1", "++1", "+-1", "0x0x1", "1.0", "1,0", "'1'", "\u{0}", "1\u{0}"]
            .into_iter()
            .map(|s| s.to_string())
            .collect();
        // a multi-byte character at every position next to the characters the parser slices
        // at ("0", "0x"): byte offsets that are not character boundaries
        for pre in ["", "0", "0x", "0X", "00", "1", "x", "0x1", "10", "0xf"] {
            for ch in ['\u{d7}', '\u{ff58}', '\u{1f600}', '\u{e9}', '\u{a0}', '\u{ff10}', '\u{301}', '\u{df}', '\u{7ff}', '\u{800}'] {
                for suf in ["", "10", "ff0f", "x1"] {
                    bad.push(format!("{}{}{}", pre, ch, suf));
                }
            }
        }
        bad.push("1".repeat(80));
        bad.push(format!("0x{}", "f".repeat(70)));
        bad.push("0".repeat(100) + "65536");
        for v in 65536u32..66600 {
            bad.push(format!("{}", v));
            bad.push(format!("0x{:x}", v));
        }
        for s in bad {
            rec.eval(2);
            let exp = if s.trim().chars().any(|c| c.is_whitespace()) { AddrExp::Reject } else { expect_address(s.trim()) };
            match exp {
                AddrExp::Reject => {
                    if s.trim().chars().all(|c| c.is_ascii_hexdigit() || c == 'x') && s.len() > 4 {
                        rec.class("out-of-range-rejected", 1);
                    } else {
                        rec.class("malformed-rejected", 1);
                    }
                }
                AddrExp::Gray(_) => rec.class("gray-numeral", 1),
                AddrExp::Exact(_) => rec.class("address-decimal", 1),
            }
            if let Err(e) = test_parse_address(&s) {
                rec.violation(&e.sig, json!({"kind": "address", "text": s}), e.detail);
            }
            for w in ["break", "print", "P"] {
                let line = format!("{} {}", w, s);
                if let Err(e) = test_parse_command(&line) {
                    rec.violation(&e.sig, json!({"kind": "line", "text": line}), e.detail);
                }
            }
        }
    }
    // generated numerals around the limits
    let cases = rec.ctx.tier.pick(3000u32, 200_000);
    let numeral = prop_oneof![
        (0u64..200000).prop_map(|v| format!("{}", v)),
        (0u64..0x30000).prop_map(|v| format!("0x{:x}", v)),
        (0u64..0x30000).prop_map(|v| format!("0X{:X}", v)),
        (0u64..70000).prop_map(|v| format!("+{}", v)),
        (0u64..0x11000).prop_map(|v| format!("0x+{:x}", v)),
        "[0-9a-fxX+\\-]{0,8}",
        "0x[0-9a-fA-F]{0,9}",
        "[0-9]{1,24}",
    ];
    fn sjson(s: &String) -> Value {
        json!({"kind": "address", "text": s})
    }
    run_generated(rec, "numerals", cases, numeral, sjson, |s, rec, counting| {
        if counting {
            rec.eval(1);
            match expect_address(s.trim()) {
                AddrExp::Gray(_) => rec.class("gray-numeral", 1),
                AddrExp::Reject => rec.class("malformed-rejected", 1),
                AddrExp::Exact(_) => rec.class("address-decimal", 1),
            }
        }
        test_parse_address(s)
    });
    // (c) lines
    let word = prop_oneof![
        4 => prop::sample::select(vec!["break", "c", "continue", "info", "p", "print", "s", "step", "reg", "registers"]).prop_flat_map(|w| any::<u32>().prop_map(move |b| mixed_case(w, b))),
        1 => "[a-zA-Z]{1,9}",
        1 => "\\PC{1,6}",
        1 => prop::sample::select(vec!["brea\u{212a}", "ſ", "ＢＲＥＡＫ", "İnfo", "pr\u{131}nt", "STEP\u{0}", "c\u{200b}"]).prop_map(|s| s.to_string()),
    ];
    let arg = prop_oneof![
        3 => (0u32..70000).prop_map(|v| format!("{}", v)),
        3 => (0u32..0x11000).prop_map(|v| format!("0x{:x}", v)),
        1 => "[0-9a-fx+]{0,6}",
        1 => "\\PC{0,5}",
    ];
    let ws = prop::sample::select(vec![" ", "  ", "\t", "\u{a0}", "\u{2003}", "\n", "\u{3000} ", "\u{85}"]);
    let structured = (prop::option::of(ws.clone()), word, prop::collection::vec((ws.clone(), prop_oneof![arg, prop::sample::select(vec!["reg", "REGISTERS", "Reg", "junk"]).prop_map(|s| s.to_string())]), 0..3), prop::option::of(ws)).prop_map(|(l, w, args, r)| {
        let mut s = String::new();
        s.push_str(l.unwrap_or(""));
        s.push_str(&w);
        for (sep, a) in args {
            s.push_str(sep);
            s.push_str(&a);
        }
        s.push_str(r.unwrap_or(""));
        s
    });
    let line = prop_oneof![2 => any::<String>(), 2 => "\\PC*", 6 => structured];
    fn ljson(s: &String) -> Value {
        json!({"kind": "line", "text": s})
    }
    let cases = rec.ctx.tier.pick(20_000u32, 1_000_000);
    run_generated(rec, "lines", cases, line, ljson, |s, rec, counting| {
        let r = test_parse_command(s);
        if counting {
            rec.eval(1);
            if !s.is_ascii() {
                rec.class("unicode-line", 1);
            }
            if let Ok(Some(_)) = r {
                rec.class("command-recognised", 1);
                rec.nontrivial(fnv(s.as_bytes()));
            }
        }
        r.map(|_| ())
    });
    // (d) disassembly
    let instr = (any::<u8>(), any::<u8>(), any::<u8>()).prop_map(|(op, a, b)| {
        let n = ref_len(op);
        let mut v = vec![op];
        if n > 1 {
            v.push(a);
        }
        if n > 2 {
            v.push(b);
        }
        v
    });
    let biased = prop_oneof![
        5 => instr,
        1 => any::<u8>().prop_map(|b| vec![0xcb, b]),
        1 => (prop::sample::select(vec![0x01u8, 0x08, 0x11, 0x21, 0x31, 0xc3, 0xcd, 0xea, 0xfa, 0xc2, 0xc4]), any::<u8>(), any::<u8>()).prop_map(|(o, a, b)| vec![o, a, b]),
    ];
    let base = prop_oneof![3 => any::<u16>(), 1 => 0xff80u16..=0xffff, 1 => Just(0u16)];
    let strat = (base, prop::collection::vec(biased, 0..64));
    fn djson(v: &(u16, Vec<Vec<u8>>)) -> Value {
        json!({"kind": "disasm", "base": v.0, "instructions": v.1.iter().map(|i| hex(i)).collect::<Vec<_>>()})
    }
    let cases = rec.ctx.tier.pick(6000u32, 400_000);
    run_generated(rec, "disasm", cases, strat, djson, |(base, instrs), rec, counting| {
        if counting {
            rec.eval(1);
            let total: usize = instrs.iter().map(|i| i.len()).sum();
            if *base as usize + total > 0x10000 {
                rec.class("disasm-wraps", 1);
            }
            if instrs.iter().any(|i| i.len() == 3) && instrs.iter().any(|i| i[0] == 0xcb) {
                rec.class("disasm-three-byte-and-cb", 1);
                rec.nontrivial(fnv(format!("{}{:?}", base, instrs).as_bytes()));
            }
        }
        test_disasm(*base, instrs)
    });
    // long listings: whole address spaces and more (a listing is not limited to 64 KiB)
    for (k, size) in [0xfff0usize, 0xfffd, 0x10000, 0x10001, 0x10003, 0x18000, 0x20000, 0x30005].iter().enumerate() {
        if !rec.ctx.mine(5 + k) || rec.too_many() {
            continue;
        }
        for base in [0u16, 0x0150, 0xfffe] {
            let seed = rec.ctx.seed ^ ((k as u64) << 32) ^ base as u64;
            let case = long_json(base, seed, *size);
            rec.current(&case.to_string());
            rec.eval(1);
            rec.class("disasm-long-listing", 1);
            if *size >= 0x10000 {
                rec.class("disasm-listing-of-64k-or-more", 1);
            }
            rec.nontrivial(fnv(case.to_string().as_bytes()));
            if let Err(e) = test_disasm(base, &long_listing(seed, *size)) {
                let mut d = e.detail;
                d.truncate(600);
                rec.violation(&format!("long-{}", e.sig), case, d);
            }
        }
    }
    // every single instruction on its own, at the wrap and elsewhere
    if rec.ctx.mine(2) {
        for op in 0..=255u8 {
            for cb in 0..if op == 0xcb { 256 } else { 1 } {
                let mut i = vec![op];
                match ref_len(op) {
                    2 => i.push(if op == 0xcb { cb as u8 } else { 0x12 }),
                    3 => i.extend([0x34, 0x12]),
                    _ => {}
                }
                rec.eval(1);
                if let Err(e) = test_disasm(0xfffe, &[i.clone(), vec![0x00]]) {
                    rec.violation(&e.sig, djson(&(0xfffe, vec![i, vec![0]])), e.detail);
                }
            }
        }
        rec.exhaustive_part("every first byte and every CB-prefixed encoding disassembled on its own across the 0xFFFF wrap");
    }
}

fn replay(case: &Value, rec: &mut Rec) {
    rec.eval(1);
    let text = case.get("text").and_then(|t| t.as_str()).unwrap_or("").to_string();
    match case.get("kind").and_then(|k| k.as_str()) {
        Some("address") => {
            if let Err(e) = test_parse_address(&text) {
                rec.violation(&e.sig, case.clone(), e.detail);
            }
        }
        Some("line") => {
            if let Err(e) = test_parse_command(&text) {
                rec.violation(&e.sig, case.clone(), e.detail);
            }
        }
        Some("disasm") => {
            let base = case.get("base").and_then(|v| v.as_u64()).unwrap_or(0) as u16;
            let instrs: Vec<Vec<u8>> = case.get("instructions").and_then(|v| v.as_array()).map(|a| a.iter().map(|s| unhex(s.as_str().unwrap_or(""))).collect()).unwrap_or_default();
            if let Err(e) = test_disasm(base, &instrs) {
                rec.violation(&e.sig, case.clone(), e.detail);
            }
        }
        Some("disasm-long") => {
            let base = case.get("base").and_then(|v| v.as_u64()).unwrap_or(0) as u16;
            let seed = case.get("seed").and_then(|v| v.as_u64()).unwrap_or(0);
            let size = (case.get("size").and_then(|v| v.as_u64()).unwrap_or(0x10000) as usize).min(0x100000);
            if let Err(e) = test_disasm(base, &long_listing(seed, size)) {
                let mut d = e.detail;
                d.truncate(600);
                rec.violation(&format!("long-{}", e.sig), case.clone(), d);
            }
        }
        _ => rec.inconclusive("replay case is not a C20 case"),
    }
}

/// fuzz entry: one arbitrary input line through both parsers
pub fn fuzz_line(s: &str) -> CaseResult {
    test_parse_command(s).map(|_| ())?;
    test_parse_address(s)
}

/// fuzz entry: bytes -> (base, instruction stream) through the disassembler
pub fn fuzz_disasm(data: &[u8]) -> CaseResult {
    if data.len() < 2 {
        return Ok(());
    }
    let base = u16::from_le_bytes([data[0], data[1]]);
    let mut instrs: Vec<Vec<u8>> = Vec::new();
    let mut i = 2;
    while i < data.len() && instrs.len() < 64 {
        let op = data[i];
        let n = ref_len(op);
        if i + n > data.len() {
            break;
        }
        instrs.push(data[i..i + n].to_vec());
        i += n;
    }
    test_disasm(base, &instrs)
}
