//! Helpers shared by the checks.

use crate::mach::{Emu, Regs, Snapshot};
use crate::rom::RomImage;
use models::sm83::{Bus, Cpu};

/// The standard cartridge used when the property does not quantify over
/// cartridges: MBC1+RAM+BATTERY, 8 ROM banks, 32 KiB RAM — every bus address is
/// backed by storage, so generated pointers may roam freely.
pub fn std_rom() -> RomImage {
    RomImage::new(0x03, 0x02, 0x03, 0x00)
}

pub fn cpu_from_regs(r: &Regs) -> Cpu {
    Cpu {
        a: (r.af >> 8) as u8,
        f: r.af as u8,
        b: (r.bc >> 8) as u8,
        c: r.bc as u8,
        d: (r.de >> 8) as u8,
        e: r.de as u8,
        h: (r.hl >> 8) as u8,
        l: r.hl as u8,
        sp: r.sp as u16,
        pc: r.pc as u16,
    }
}

pub fn regs_from_cpu(c: &Cpu, cycles: u32) -> Regs {
    Regs {
        af: c.af() as u32,
        bc: c.bc() as u32,
        de: c.de() as u32,
        hl: c.hl() as u32,
        sp: c.sp as u32,
        pc: c.pc as u32,
        cycles,
    }
}

pub fn fmt_regs(r: &Regs) -> String {
    format!(
        "AF={:04x} BC={:04x} DE={:04x} HL={:04x} SP={:04x} PC={:04x} cyc={}",
        r.af, r.bc, r.de, r.hl, r.sp, r.pc, r.cycles
    )
}

/// first differing CPU register (cycles excluded unless asked)
pub fn diff_regs(got: &Regs, want: &Regs, with_pc: bool, with_cycles: bool) -> Option<String> {
    let pairs = [
        ("AF", got.af, want.af),
        ("BC", got.bc, want.bc),
        ("DE", got.de, want.de),
        ("HL", got.hl, want.hl),
        ("SP", got.sp, want.sp),
    ];
    for (n, g, w) in pairs {
        if g != w {
            return Some(format!("{} = {:#x}, expected {:#06x}", n, g, w));
        }
    }
    if with_pc && got.pc != want.pc {
        return Some(format!("PC = {:#x}, expected {:#06x}", got.pc, want.pc));
    }
    if with_cycles && got.cycles != want.cycles {
        return Some(format!("machine cycles = {}, expected {}", got.cycles, want.cycles));
    }
    None
}

/// The reference CPU's bus mapped onto a real machine (the "twin"): the model
/// computes what to access, the twin's own memory map performs the access.
pub struct TwinBus<'a> {
    pub m: &'a mut dyn Emu,
    pub writes: Vec<(u16, u8)>,
}

impl<'a> Bus for TwinBus<'a> {
    fn read(&mut self, addr: u16) -> u8 {
        self.m.read(addr)
    }
    fn write(&mut self, addr: u16, value: u8) {
        self.writes.push((addr, value));
        self.m.write(addr, value)
    }
}

/// A tiny bus for register-only and single-cell cases: the instruction bytes at
/// `pc0` and one data cell; everything else reads 0.
pub struct CaseBus {
    pub pc0: u16,
    pub code: [u8; 3],
    pub cell_addr: u16,
    pub cell: u8,
    pub nwrites: u32,
    pub stray: bool,
}

impl Bus for CaseBus {
    #[inline]
    fn read(&mut self, addr: u16) -> u8 {
        let d = addr.wrapping_sub(self.pc0);
        if d < 3 {
            self.code[d as usize]
        } else if addr == self.cell_addr {
            self.cell
        } else {
            self.stray = true;
            0
        }
    }
    #[inline]
    fn write(&mut self, addr: u16, value: u8) {
        self.nwrites += 1;
        if addr == self.cell_addr {
            self.cell = value;
        } else {
            self.stray = true;
        }
    }
}

/// Put instruction bytes where the CPU will fetch them: directly into the ROM
/// image for 0x0000-0x7FFF (current bank), through the bus elsewhere.
pub fn place_code(m: &mut dyn Emu, pc: u16, code: &[u8]) {
    for (i, b) in code.iter().enumerate() {
        let a = pc.wrapping_add(i as u16);
        if a < 0x4000 {
            m.rom()[a as usize] = *b;
        } else if a < 0x8000 {
            let bank = m.rom_bank();
            let idx = bank * 0x4000 + (a as usize & 0x3fff);
            let rom = m.rom();
            if idx < rom.len() {
                rom[idx] = *b;
            }
        } else {
            m.write(a, *b);
        }
    }
}

pub fn is_plain_ram(addr: u16) -> bool {
    (0x8000..0xe000).contains(&addr) || (0xfe00..0xfea0).contains(&addr) || (0xff80..0xffff).contains(&addr)
}

/// Undo the effect of a write trace: plain RAM bytes are put back from the
/// snapshot; anything that touched bank registers or I/O forces a full restore.
pub fn undo(m: &mut dyn Emu, snap: &Snapshot, writes: &[(u16, u8)], ram_bank_at_snapshot: usize) {
    let mut full = false;
    for (a, _) in writes {
        if !is_plain_ram(*a) && !(0xe000..0xfe00).contains(a) && !(0xfea0..0xff00).contains(a) {
            full = true;
        }
    }
    if full || m.ram_bank() != ram_bank_at_snapshot {
        m.restore(snap);
        return;
    }
    for (a, _) in writes {
        let a = *a;
        let v = match a {
            0x8000..=0x9fff => snap.vram[a as usize & 0x1fff],
            0xa000..=0xbfff => snap.cart_ram[ram_bank_at_snapshot * 0x2000 + (a as usize & 0x1fff)],
            0xc000..=0xdfff => snap.wram[a as usize & 0x1fff],
            0xfe00..=0xfe9f => snap.oam[a as usize & 0xff],
            0xff80..=0xfffe => snap.hram[a as usize & 0x7f],
            _ => continue,
        };
        m.write(a, v);
    }
}

pub const LEGAL_F: [u8; 16] = [
    0x00, 0x10, 0x20, 0x30, 0x40, 0x50, 0x60, 0x70, 0x80, 0x90, 0xa0, 0xb0, 0xc0, 0xd0, 0xe0, 0xf0,
];

/// run a closure, turning a Rust panic into Err(message)
pub fn guarded<T>(f: impl FnOnce() -> T) -> Result<T, String> {
    match std::panic::catch_unwind(std::panic::AssertUnwindSafe(f)) {
        Ok(v) => Ok(v),
        Err(e) => Err(if let Some(s) = e.downcast_ref::<String>() {
            s.clone()
        } else if let Some(s) = e.downcast_ref::<&str>() {
            s.to_string()
        } else {
            "panic".to_string()
        }),
    }
}

/// Human-readable mnemonic via the repository's own disassembler text is not
/// used here (it is under test in C20); encodings are reported as hex.
pub fn enc_name(code: &[u8]) -> String {
    code.iter().map(|b| format!("{:02x}", b)).collect::<Vec<_>>().join(" ")
}
