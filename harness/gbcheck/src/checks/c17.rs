//! C17 — P1 reflects the button matrix and the joypad interrupt fires on falling lines.

use super::common::*;
use crate::engine::*;
use crate::mach::{i, Emu};
use gbint::devices::joypad::{Button, Joypad};
use models::joypad::Joypad as RefPad;
use proptest::prelude::*;
use serde_json::{json, Value};

pub static DEF: CheckDef = CheckDef {
    id: "C17",
    run,
    replay,
    rule: "the complete transition relation: every one of the 256 button states x 4 selections is reached through the public API (on the Joypad device and, separately, through the bus: writes to 0xFF00, press/release, catch-up, IF bit 4) with the request latch cleared, then each of the 20 single actions (press / release of each of the 8 buttons, each of the 4 select writes) is applied; P1 bits 0-5 before and after, whether the action requests the joypad interrupt, and that the request is reported exactly once are compared with the matrix model (models::joypad). 256 x 4 x 20 = 20480 transitions per level, all enumerated. Plus proptest histories through the bus (arbitrary P1 bytes, several actions between catch-ups). Non-trivial = transition in which at least one input line changes; distinct by construction (state, action). Program layer (the glue between the CPU loop and the device): generated structured programs (C04's generator with the device fragments weighted up: P1 select writes and reads, software IF writes, IE changes; up to 13 generated button presses/releases injected between steps) run on a whole core in three stepping modes (interpreter instruction-stepped, interpreter block-stepped, jit block-stepped); the reference machine says which bus writes each step made, how many clocks it is worth and which request was acknowledged, and the independent model fed with exactly that must agree with P1 bits 0-5 and IF bit 4 (set by every falling input line, cleared only by a software IF write or by its own acknowledge - in particular it survives the dispatch of another source; the order of a select-line edge and an IF write inside one step is left open) after every step.",
    assumptions: &[
        "models::joypad (line low iff a pressed button belongs to a selected group; request iff some line goes high -> low)",
        "P1 bits 6-7 are not compared",
        "several falling edges between two catch-ups are one request (IF is a flag, not a counter)",
    ],
    required_classes: &["device-transition", "bus-transition", "falling-by-press", "falling-by-select", "rise-and-fall-same-write", "no-edge", "generated-history", "program-button-edge", "program-select-edge", "program-joypad-request-survived-other-dispatch", "program-mode-block-jit"],
    exhaustive: true,
};

fn button(i: u8) -> Button {
    match i & 7 {
        0 => Button::A,
        1 => Button::B,
        2 => Button::Select,
        3 => Button::Start,
        4 => Button::Right,
        5 => Button::Left,
        6 => Button::Up,
        _ => Button::Down,
    }
}

#[derive(Clone, Copy, Debug, serde::Serialize, serde::Deserialize, PartialEq, Eq)]
enum Act {
    Press(u8),
    Release(u8),
    Select(u8),
}

fn all_actions() -> Vec<Act> {
    let mut v = Vec::new();
    for b in 0..8 {
        v.push(Act::Press(b));
        v.push(Act::Release(b));
    }
    for s in [0x00u8, 0x10, 0x20, 0x30] {
        v.push(Act::Select(s));
    }
    v
}

fn apply_model(m: &mut RefPad, a: Act) -> bool {
    match a {
        Act::Press(b) => m.press(b),
        Act::Release(b) => m.release(b),
        Act::Select(s) => m.write(s),
    }
}

fn case_json(level: &str, buttons: u8, select: u8, acts: &[Act]) -> Value {
    json!({"kind": "joypad", "level": level, "buttons": buttons, "select": select, "actions": acts})
}

fn classify(rec: &mut Rec, before: &RefPad, after: &RefPad, act: Act, req: bool) {
    let (lb, la) = (before.lines(), after.lines());
    if lb != la {
        rec.nontrivial_direct(1);
    }
    if req {
        match act {
            Act::Select(_) => {
                rec.class("falling-by-select", 1);
                if la & !lb != 0 {
                    rec.class("rise-and-fall-same-write", 1);
                }
            }
            _ => rec.class("falling-by-press", 1),
        }
    } else {
        rec.class("no-edge", 1);
    }
}

fn device_transition(buttons: u8, select: u8, act: Act) -> Result<(), (String, String)> {
    let mut j = Joypad::new();
    let mut m = RefPad::new(0x30);
    for b in 0..8 {
        if buttons & (1 << b) != 0 {
            j.press_button(button(b));
            m.press(b);
        }
    }
    j.set_value(select);
    m.write(select);
    let _ = j.get_interrupt();
    if j.get_value() & 0x3f != m.p1() {
        return Err(("p1-state".into(), format!("buttons {:#04x}, select {:#04x}: P1 & 0x3F = {:#04x}, matrix model {:#04x}", buttons, select, j.get_value() & 0x3f, m.p1())));
    }
    match act {
        Act::Press(b) => j.press_button(button(b)),
        Act::Release(b) => j.release_button(button(b)),
        Act::Select(s) => j.set_value(s),
    }
    let want_req = apply_model(&mut m, act);
    if j.get_value() & 0x3f != m.p1() {
        return Err(("p1-after".into(), format!("buttons {:#04x}, select {:#04x}, {:?}: P1 & 0x3F = {:#04x}, matrix model {:#04x}", buttons, select, act, j.get_value() & 0x3f, m.p1())));
    }
    let req = j.get_interrupt().as_u8() & 0x10 != 0;
    if req != want_req {
        let sig = if want_req { "request-missing" } else { "request-spurious" };
        let kind = match act {
            Act::Select(_) => "select",
            _ => "button",
        };
        return Err((format!("{}-{}", sig, kind), format!("buttons {:#04x}, select {:#04x}, {:?}: interrupt requested = {}, lines went {:#03x} -> {:#03x} so the model says {}", buttons, select, act, req, {
            let mut pre = RefPad::new(0x30);
            pre.buttons = buttons;
            pre.select = select & 0x30;
            pre.lines()
        }, m.lines(), want_req)));
    }
    if j.get_interrupt().as_u8() != 0 {
        return Err(("reported-twice".into(), format!("buttons {:#04x}, select {:#04x}, {:?}: the request was reported a second time", buttons, select, act)));
    }
    Ok(())
}

struct BusPad {
    m: i::M,
    model: RefPad,
    pending: bool,
}

impl BusPad {
    fn reset(&mut self) {
        self.m.reset_devices();
        self.model = RefPad::new(0x30);
        self.pending = false;
    }
    fn act(&mut self, a: Act) {
        match a {
            Act::Press(b) => self.m.press(b, true),
            Act::Release(b) => self.m.press(b, false),
            Act::Select(s) => self.m.write(0xff00, s),
        }
        self.pending |= apply_model(&mut self.model, a);
    }
    fn write_raw(&mut self, v: u8) {
        self.m.write(0xff00, v);
        self.pending |= self.model.write(v);
    }
    /// catch-up: the latched request moves to IF bit 4; returns (observed, expected)
    fn catch_up(&mut self) -> (bool, bool) {
        self.m.run_clocks(4);
        let v = self.m.read(0xff0f) & 0x1f;
        self.m.write(0xff0f, v & !0x10);
        let want = self.pending;
        self.pending = false;
        (v & 0x10 != 0, want)
    }
    fn p1_ok(&mut self) -> Result<(), (String, String)> {
        let got = self.m.read(0xff00) & 0x3f;
        if got != self.model.p1() {
            return Err(("p1-bus".into(), format!("P1 & 0x3F = {:#04x}, matrix model {:#04x} (buttons {:#04x}, select bits {:#04x})", got, self.model.p1(), self.model.buttons, self.model.select)));
        }
        Ok(())
    }
}

fn bus_transition(p: &mut BusPad, buttons: u8, select: u8, act: Act) -> Result<(), (String, String)> {
    p.reset();
    for b in 0..8 {
        if buttons & (1 << b) != 0 {
            p.act(Act::Press(b));
        }
    }
    p.act(Act::Select(select));
    let _ = p.catch_up();
    p.p1_ok()?;
    p.act(act);
    p.p1_ok()?;
    let (got, want) = p.catch_up();
    if got != want {
        let sig = if want { "request-missing" } else { "request-spurious" };
        let kind = match act {
            Act::Select(_) => "select",
            _ => "button",
        };
        return Err((format!("{}-{}-bus", sig, kind), format!("buttons {:#04x}, select {:#04x}, {:?}: IF bit 4 after catch-up = {}, model says {}", buttons, select, act, got, want)));
    }
    let (again, _) = p.catch_up();
    if again {
        return Err(("reported-twice-bus".into(), format!("buttons {:#04x}, select {:#04x}, {:?}: IF bit 4 was raised again by the next catch-up", buttons, select, act)));
    }
    Ok(())
}

#[derive(Clone, Debug, serde::Serialize, serde::Deserialize)]
enum HOp {
    Act(Act),
    WriteRaw(u8),
    CatchUp,
}

fn run_history(p: &mut BusPad, ops: &[HOp]) -> Result<(), (String, String)> {
    p.reset();
    for (k, op) in ops.iter().enumerate() {
        match op {
            HOp::Act(a) => p.act(*a),
            HOp::WriteRaw(v) => p.write_raw(*v),
            HOp::CatchUp => {
                let (got, want) = p.catch_up();
                if got != want {
                    return Err((if want { "request-missing-history" } else { "request-spurious-history" }.into(), format!("operation {}: IF bit 4 after catch-up = {}, model says {}", k, got, want)));
                }
            }
        }
        p.p1_ok().map_err(|(s, d)| (s, format!("operation {} ({:?}): {}", k, op, d)))?;
    }
    Ok(())
}

fn run(rec: &mut Rec) {
    let acts = all_actions();
    let rom = std_rom();
    let mut p = BusPad { m: i::M::new(&rom), model: RefPad::new(0x30), pending: false };
    for buttons in 0..=255u8 {
        if !rec.ctx.mine(buttons as usize) || rec.too_many() {
            continue;
        }
        for select in [0x00u8, 0x10, 0x20, 0x30] {
            for act in &acts {
                let mut before = RefPad::new(0x30);
                before.buttons = buttons;
                before.select = select;
                let mut after = before;
                let req = apply_model(&mut after, *act);
                rec.eval(2);
                classify(rec, &before, &after, *act, req);
                rec.class("device-transition", 1);
                rec.class("bus-transition", 1);
                rec.current(&case_json("device", buttons, select, &[*act]).to_string());
                match guarded(|| device_transition(buttons, select, *act)) {
                    Ok(Ok(())) => {}
                    Ok(Err((sig, d))) => rec.violation(&sig, case_json("device", buttons, select, &[*act]), d),
                    Err(msg) => rec.violation("panic", case_json("device", buttons, select, &[*act]), msg),
                }
                match guarded(|| bus_transition(&mut p, buttons, select, *act)) {
                    Ok(Ok(())) => {}
                    Ok(Err((sig, d))) => rec.violation(&sig, case_json("bus", buttons, select, &[*act]), d),
                    Err(msg) => rec.violation("panic", case_json("bus", buttons, select, &[*act]), msg),
                }
            }
        }
        if buttons % 40 == 3 {
            rec.sample(|| case_json("device", buttons, 0x20, &[Act::Select(0x10)]));
        }
    }
    rec.exhaustive_part("256 button states x 4 selections x 20 actions, on the device and through the bus");
    // generated histories through the bus
    let cases = rec.ctx.tier.pick(3000u32, 200_000);
    let act = prop_oneof![(0u8..8).prop_map(Act::Press), (0u8..8).prop_map(Act::Release), prop::sample::select(vec![0u8, 0x10, 0x20, 0x30]).prop_map(Act::Select)];
    let hop = prop_oneof![5 => act.prop_map(HOp::Act), 2 => any::<u8>().prop_map(HOp::WriteRaw), 3 => Just(HOp::CatchUp)];
    let strat = prop::collection::vec(hop, 1..40);
    let cell = std::cell::RefCell::new(p);
    fn to_json(ops: &Vec<HOp>) -> Value {
        json!({"kind": "joypad-history", "ops": ops})
    }
    run_generated(rec, "hist", cases, strat, to_json, |ops, rec, counting| {
        if counting {
            rec.eval(1);
            rec.class("generated-history", 1);
            rec.nontrivial(fnv(format!("{:?}", ops).as_bytes()));
        }
        match guarded(|| run_history(&mut cell.borrow_mut(), ops)) {
            Ok(Ok(())) => Ok(()),
            Ok(Err((sig, d))) => Err(Fail::new(sig, d)),
            Err(msg) => Err(Fail::new("panic", msg)),
        }
    });
    // program layer: the joypad as a whole core drives it, with button events injected between steps
    crate::sysobs::program_layer(rec, "program-joypad", &[crate::sysobs::Dev::Joypad], crate::prog::Focus { joy: 3, irq: 2, lcd: 1, ..Default::default() }, rec.ctx.tier.pick(250u32, 6000), rec.ctx.tier.pick(2500u32, 10000), 14, program_nontrivial);
}

fn replay(case: &Value, rec: &mut Rec) {
    if crate::sysobs::replay_program(case, rec, &[crate::sysobs::Dev::Joypad]) {
        return;
    }
    let rom = std_rom();
    let mut p = BusPad { m: i::M::new(&rom), model: RefPad::new(0x30), pending: false };
    rec.eval(1);
    if case.get("kind").and_then(|k| k.as_str()) == Some("joypad-history") {
        let ops: Vec<HOp> = case.get("ops").cloned().and_then(|v| serde_json::from_value(v).ok()).unwrap_or_default();
        if let Err((sig, d)) = run_history(&mut p, &ops) {
            rec.violation(&sig, case.clone(), d);
        }
        return;
    }
    let buttons = case.get("buttons").and_then(|v| v.as_u64()).unwrap_or(0) as u8;
    let select = case.get("select").and_then(|v| v.as_u64()).unwrap_or(0) as u8;
    let acts: Vec<Act> = case.get("actions").cloned().and_then(|v| serde_json::from_value(v).ok()).unwrap_or_default();
    let level = case.get("level").and_then(|v| v.as_str()).unwrap_or("device");
    for a in acts {
        let r = if level == "bus" { bus_transition(&mut p, buttons, select, a) } else { device_transition(buttons, select, a) };
        if let Err((sig, d)) = r {
            rec.violation(&sig, case.clone(), d);
        }
    }
}

fn program_nontrivial(o: &crate::sysobs::RunOutcome) -> bool {
    o.stats.joy_edges_press + o.stats.joy_edges_select > 0 && o.stats.dispatches > 0
}
