//! C16 — OAM DMA copies exactly 160 bytes, one per machine cycle.

use super::common::*;
use crate::engine::*;
use crate::mach::{diff_state, i, Emu, Snapshot};
use models::dma::Dma;
use proptest::prelude::*;
use serde_json::{json, Value};

pub static DEF: CheckDef = CheckDef {
    id: "C16",
    run,
    replay,
    rule: "(a) every one of the 256 source pages: start a transfer, let it complete in one batch and in 3 split patterns, compare OAM and all other memory with the per-machine-cycle reference (models::dma driving a twin machine's bus); plus, for every page, a source byte ahead of the copy position is changed after k machine cycles for k in {0, 1, 79, 158, 159, 160, 161} (it must land iff it was not yet copied). (b) proptest histories of up to 16 operations over {start(page), advance(m machine cycles, cut points), write(addr, value)} on an MBC1+RAM machine (also with the LCD switched on and positioned anywhere in a frame first), with writes biased into the active source page around the copy position, into OAM, onto bank registers (source in switchable ROM / cartridge RAM) and onto 0xFF46 (restart); after every operation OAM and the complete machine state are compared with the reference, and every advance is also delivered in pieces to a second real instance that must end in the same state. Non-trivial = history with a source write during a transfer, a restart, or an advance split inside a transfer; distinct by hash of the history. Program layer (the glue between the CPU loop and the device): generated structured programs (C04's generator with the device fragments weighted up: DMA started inline and left running under register code, a long straight block, EI;HALT and STOP; DMA with the HRAM wait loop; stores into OAM and into the source page) run on a whole core in three stepping modes (interpreter instruction-stepped, interpreter block-stepped, jit block-stepped); the reference machine says which bus writes each step made, how many clocks it is worth and which request was acknowledged, and the independent model fed with exactly that must agree with all 160 OAM bytes (bytes copied so far = machine cycles delivered since the 0xFF46 write, each read through the core's memory map when copied) after every step.",
    assumptions: &[
        "models::dma (byte k is copied in machine cycle k+1 after the write to 0xFF46, source read at that time)",
        "source bytes that are live device registers (page 0xFF, offsets 0x00-0x7F) are not compared (their value depends on when within the batch they are read)",
        "memory behind the bus (echo pages, unusable area, bank mapping) is whatever the repository's bus returns, on both sides (C10); the reference stores the transferred bytes into OAM directly, not through the emulator's write path",
    ],
    required_classes: &["all-pages", "source-write-ahead-lands", "source-write-behind-ignored", "change-at-159", "change-at-160", "restart", "split-inside-transfer", "lcd-on-mid-frame", "source-in-banked-rom", "generated-history", "program-dma-completed", "program-dma-bytes-while-halted-or-stopped", "program-dma-bytes-in-long-block", "program-mode-block-jit"],
    exhaustive: false,
};

#[derive(Clone, Debug, serde::Serialize, serde::Deserialize)]
enum Op {
    Start(u8),
    /// advance m machine cycles; cuts as fractions
    Adv(u16, Vec<u16>),
    Write(u16, u8),
    /// write relative to the active transfer: source page, offset = progress + delta
    WriteRel(i16, u8),
    /// program LCDC and let time pass (no transfer running): puts the LCD at an arbitrary line / mode
    Pos(u8, u16),
}

fn case_json(ops: &[Op]) -> Value {
    json!({"kind": "dma", "ops": ops})
}

struct Twin<'a> {
    m: &'a mut i::M,
}
impl<'a> models::sm83::Bus for Twin<'a> {
    fn read(&mut self, a: u16) -> u8 {
        self.m.read(a)
    }
    fn write(&mut self, a: u16, v: u8) {
        // the transfer's destination is OAM storage itself: the reference does not go
        // through the emulator's write path (which the CPU shares) for it
        if (0xfe00..0xfea0).contains(&a) {
            self.m.core.memory.oam_ram[(a & 0xff) as usize] = v;
        } else {
            self.m.write(a, v)
        }
    }
}

struct World {
    a: i::M,
    s: i::M,
    t: i::M,
    snap: Snapshot,
}

fn new_world() -> World {
    let mut rom = std_rom();
    // distinct contents per ROM bank so that banked sources matter
    let n = rom.bytes.len();
    let mut x = 0x16u64;
    for k in (0x150..n).step_by(8) {
        x = splitmix(x);
        let b = x.to_le_bytes();
        let l = (n - k).min(8);
        rom.bytes[k..k + l].copy_from_slice(&b[..l]);
    }
    let mut a = i::M::new(&rom);
    let mut s = i::M::new(&rom);
    let mut t = i::M::new(&rom);
    for m in [&mut a, &mut s, &mut t] {
        m.fill_ram(0xc16);
        m.write(0x0000, 0x0a);
    }
    let snap = a.snapshot(vec![(0x0000, 0x0a)]);
    World { a, s, t, snap }
}

#[derive(Default)]
struct Stats {
    src_write_active: bool,
    ahead: bool,
    behind: bool,
    restart: bool,
    split_inside: bool,
    banked: bool,
    positioned: bool,
}

fn cut_sizes(n: u32, cuts: &[u16]) -> Vec<u32> {
    let mut pts: Vec<u32> = cuts.iter().map(|c| ((n as u64 * *c as u64) >> 16) as u32).filter(|p| *p > 0 && *p < n).collect();
    pts.sort();
    pts.dedup();
    let mut out = Vec::new();
    let mut prev = 0;
    for p in pts {
        out.push(p - prev);
        prev = p;
    }
    out.push(n - prev);
    out
}

fn exec(w: &mut World, ops: &[Op], st: &mut Stats) -> CaseResult {
    w.a.restore(&w.snap);
    w.s.restore(&w.snap);
    w.t.restore(&w.snap);
    let mut dma = Dma::default();
    // OAM bytes whose value is not asserted (copied from live I/O registers)
    let mut loose = [false; 0xa0];
    for (k, op) in ops.iter().enumerate() {
        let resolved: Op = match op {
            Op::WriteRel(delta, v) => match dma.active {
                Some((page, off)) => {
                    let o = (off as i32 + *delta as i32).rem_euclid(0xa0) as u16;
                    Op::Write((page as u16) << 8 | o, *v)
                }
                None => Op::Write(0xc000u16.wrapping_add(*delta as u16), *v),
            },
            o => o.clone(),
        };
        match &resolved {
            Op::Start(page) => {
                if dma.active.is_some() {
                    st.restart = true;
                }
                if (0x40..0x80).contains(page) || (0xa0..0xc0).contains(page) {
                    st.banked = true;
                }
                w.a.write(0xff46, *page);
                w.s.write(0xff46, *page);
                dma.start(*page);
            }
            Op::Adv(m, cuts) => {
                let m = (*m).max(1) as u32;
                w.a.run_clocks(4 * m as usize);
                let parts = cut_sizes(m, cuts);
                if parts.len() > 1 && dma.active.is_some() {
                    st.split_inside = true;
                }
                for p in &parts {
                    w.s.run_clocks(4 * *p as usize);
                }
                for _ in 0..m {
                    if let Some((src, dst)) = dma.cycle(&mut Twin { m: &mut w.t }) {
                        loose[(dst & 0xff) as usize] = (0xff00..0xff80).contains(&src);
                    }
                    w.t.run_clocks(4);
                }
            }
            Op::Write(addr, v) => {
                let addr = *addr;
                if addr == 0xff46 {
                    if dma.active.is_some() {
                        st.restart = true;
                    }
                    dma.start(*v);
                    w.a.write(addr, *v);
                    w.s.write(addr, *v);
                } else {
                    if let Some((page, off)) = dma.active {
                        if addr >> 8 == page as u16 && (addr & 0xff) < 0xa0 {
                            st.src_write_active = true;
                            if (addr & 0xff) as u8 >= off {
                                st.ahead = true;
                            } else {
                                st.behind = true;
                            }
                        }
                    }
                    w.a.write(addr, *v);
                    w.s.write(addr, *v);
                    w.t.write(addr, *v);
                    if (0xfe00..0xfea0).contains(&addr) {
                        loose[(addr & 0xff) as usize] = false;
                    }
                }
            }
            Op::Pos(lcdc, skip) => {
                if dma.active.is_none() {
                    st.positioned = true;
                    for m in [&mut w.a, &mut w.s, &mut w.t] {
                        m.write(0xff40, *lcdc);
                        m.run_clocks(4 * (*skip as usize + 1));
                    }
                }
            }
            Op::WriteRel(..) => unreachable!(),
        }
        // compare: OAM (asserted bytes), then everything else
        let at = format!("operation {} ({:?})", k, resolved);
        for o in 0..0xa0usize {
            if loose[o] {
                // make the three instances agree on unasserted bytes so that they do not propagate
                let v = w.a.core.memory.oam_ram[o];
                w.t.core.memory.oam_ram[o] = v;
                w.s.core.memory.oam_ram[o] = v;
                continue;
            }
            let (got, want) = (w.a.core.memory.oam_ram[o], w.t.core.memory.oam_ram[o]);
            if got != want {
                let sig = match &resolved {
                    Op::Adv(..) => "oam-after-advance",
                    Op::Start(_) => "oam-after-start",
                    _ => "oam-after-write",
                };
                return Err(Fail::new(sig, format!("{}: OAM[{:#04x}] = {:#04x}, reference {:#04x} (reference transfer state {:?})", at, o, got, want, dma.active)));
            }
        }
        let skip = ["dma", "divider", "lcd_dots", "lcd_mode", "lcd_line", "stat", "if", "tima", "frame_visible", "frame_writing"];
        if let Some(d) = diff_state(&w.a, &w.t, &["dma", "frame_visible", "frame_writing"]) {
            return Err(Fail::new("other-state", format!("{}: state other than OAM differs from the reference: {}", at, d)));
        }
        let _ = skip;
        if let Some(d) = diff_state(&w.a, &w.s, &["frame_visible", "frame_writing"]) {
            return Err(Fail::new("batching-dependence", format!("{}: the same time delivered in pieces gives a different state: {}", at, d)));
        }
        let real_active = w.a.core.memory.verif_dma_state().is_some();
        if real_active != dma.active.is_some() {
            // observable: a later source change lands or not; report directly, it is the completion instant
            return Err(Fail::new("completion", format!("{}: transfer still running = {}, reference {} (must complete after exactly 160 machine cycles)", at, real_active, dma.active.is_some())));
        }
    }
    Ok(())
}

fn run_case(w: &mut World, ops: &[Op], rec: &mut Rec, counting: bool) -> CaseResult {
    let mut st = Stats::default();
    let r = guarded(|| exec(w, ops, &mut st));
    if counting {
        rec.eval(1);
        let mut nt = false;
        for (name, on) in [("source-write-ahead-lands", st.ahead), ("source-write-behind-ignored", st.behind), ("restart", st.restart), ("split-inside-transfer", st.split_inside)] {
            if on {
                rec.class(name, 1);
                nt = true;
            }
        }
        if st.banked {
            rec.class("source-in-banked-rom", 1);
        }
        if st.positioned {
            rec.class("lcd-on-mid-frame", 1);
        }
        if nt {
            rec.nontrivial(fnv(format!("{:?}", ops).as_bytes()));
        }
    }
    match r {
        Ok(v) => v,
        Err(msg) => Err(Fail::new("panic", format!("OAM DMA panicked: {}", msg))),
    }
}

fn op_strategy() -> impl Strategy<Value = Op> {
    let m = prop_oneof![
        3 => 1u16..6,
        3 => prop::sample::select(vec![79u16, 80, 158, 159, 160, 161, 162, 100, 60]),
        2 => 1u16..200,
        1 => 1u16..600,
    ];
    let cuts = prop::collection::vec(any::<u16>(), 0..4);
    let page = prop_oneof![
        3 => any::<u8>(),
        2 => prop::sample::select(vec![0x00u8, 0x3f, 0x40, 0x7f, 0x80, 0x9f, 0xa0, 0xbf, 0xc0, 0xcf, 0xd0, 0xdf, 0xe0, 0xfd, 0xfe, 0xff]),
    ];
    let addr = prop_oneof![
        2 => 0xfe00u16..0xfea0,
        1 => prop::sample::select(vec![0x2000u16, 0x2100, 0x3fff, 0x4000, 0x6000, 0x0000]),
        1 => Just(0xff46u16),
        2 => any::<u16>(),
    ];
    prop_oneof![
        3 => page.prop_map(Op::Start),
        6 => (m, cuts).prop_map(|(m, c)| Op::Adv(m, c)),
        4 => (-6i16..40, any::<u8>()).prop_map(|(d, v)| Op::WriteRel(d, v)),
        3 => (addr, any::<u8>()).prop_map(|(a, v)| Op::Write(a, if a < 0x2000 { (v & 0xf0) | 0x0a } else { v })),
        2 => (prop_oneof![Just(0x91u8), Just(0x83u8), any::<u8>()], 0u16..18000).prop_map(|(l, n)| Op::Pos(l, n)),
    ]
}

fn run(rec: &mut Rec) {
    let mut w = new_world();
    // (a) every page
    for page in 0..=255u8 {
        if !rec.ctx.mine(page as usize) || rec.too_many() {
            continue;
        }
        let mut cases: Vec<Vec<Op>> = vec![
            vec![Op::Start(page), Op::Adv(160, vec![])],
            vec![Op::Start(page), Op::Adv(200, vec![0x4000, 0x8000, 0xc000])],
            vec![Op::Start(page), Op::Adv(159, vec![]), Op::Adv(1, vec![]), Op::Adv(1, vec![])],
            vec![Op::Start(page), Op::Adv(50, vec![]), Op::Start(page.wrapping_add(0x41)), Op::Adv(161, vec![0x1000])],
        ];
        for k in [0u16, 1, 79, 158, 159, 160, 161] {
            let mut ops = vec![Op::Start(page)];
            if k > 0 {
                ops.push(Op::Adv(k, vec![]));
            }
            // change the last source byte and one just ahead / behind the copy position
            ops.push(Op::Write((page as u16) << 8 | 0x9f, 0xa5 ^ k as u8));
            ops.push(Op::WriteRel(0, 0x3c));
            ops.push(Op::WriteRel(-1, 0xc3));
            ops.push(Op::Adv(170, vec![0x2000]));
            cases.push(ops);
            if k == 159 {
                rec.class("change-at-159", 1);
            }
            if k == 160 {
                rec.class("change-at-160", 1);
            }
        }
        // the same with the LCD on and somewhere in the visible part of the frame
        let extra: Vec<Vec<Op>> = cases.iter().take(3).map(|c| { let mut v = vec![Op::Pos(0x93, 1140 + (page as u16) * 57)]; v.extend(c.iter().cloned()); v }).collect();
        cases.extend(extra);
        for ops in cases {
            rec.current(&case_json(&ops).to_string());
            rec.class("all-pages", 1);
            if let Err(f) = run_case(&mut w, &ops, rec, true) {
                rec.violation(&f.sig, case_json(&ops), f.detail);
            }
        }
        if page % 51 == 0 {
            rec.sample(|| case_json(&[Op::Start(page), Op::Adv(159, vec![]), Op::Write((page as u16) << 8 | 0x9f, 0x11), Op::Adv(1, vec![])]));
        }
    }
    rec.exhaustive_part("all 256 source pages x {one batch, split batches, 159+1+1, restart} x source change after k in {0,1,79,158,159,160,161} machine cycles");
    // (b) generated histories
    let cases = rec.ctx.tier.pick(8000u32, 100_000);
    let strat = prop::collection::vec(op_strategy(), 1..16);
    let cell = std::cell::RefCell::new(w);
    fn to_json(ops: &Vec<Op>) -> Value {
        case_json(ops)
    }
    run_generated(rec, "hist", cases, strat, to_json, |ops, rec, counting| {
        if counting {
            rec.current(&case_json(ops).to_string());
            rec.class("generated-history", 1);
        }
        run_case(&mut cell.borrow_mut(), ops, rec, counting)
    });
    // program layer: the transfer as a whole core drives it
    crate::sysobs::program_layer(rec, "program-dma", &[crate::sysobs::Dev::Dma], crate::prog::Focus { dma: 3, timer: 1, ..Default::default() }, rec.ctx.tier.pick(250u32, 6000), rec.ctx.tier.pick(2500u32, 10000), 1, program_nontrivial);
}

fn replay(case: &Value, rec: &mut Rec) {
    if crate::sysobs::replay_program(case, rec, &[crate::sysobs::Dev::Dma]) {
        return;
    }
    let ops: Vec<Op> = match case.get("ops").cloned().and_then(|v| serde_json::from_value(v).ok()) {
        Some(c) => c,
        None => {
            rec.inconclusive("replay case is not a C16 history");
            return;
        }
    };
    let mut w = new_world();
    if let Err(f) = run_case(&mut w, &ops, rec, true) {
        rec.violation(&f.sig, case_json(&ops), f.detail);
    }
}

fn program_nontrivial(o: &crate::sysobs::RunOutcome) -> bool {
    o.stats.dma_completed > 0
}
