//! C19 — ROM files are validated by header checksum and sized from the header tables.

use super::common::*;
use crate::engine::*;
use crate::rom::{fd_path, header_checksum, memfd_sparse, ram_bytes_for_code, rom_banks_for_code};
use models::mbc::{kind_for_type, Mbc};
use proptest::prelude::*;
use serde_json::{json, Value};
use std::io::{Seek, SeekFrom, Write};

pub static DEF: CheckDef = CheckDef {
    id: "C19",
    run,
    replay,
    rule: "ROM files are built in memory (header bytes 0x100-0x14F + a length) and loaded through the real loader (main::load_rom via the verif_load_rom hook). Enumerated completely: all 256 checksum bytes, all 256 cartridge-type bytes, all 256 ROM-size bytes and all 256 RAM-size bytes (everything else valid), each x 11 file-length classes (0, 0xFF, 0x100, 0x14F, 0x150, one page, declared-4096, declared-1, declared, declared+1, declared+16384); plus proptest headers with arbitrary bytes in all 80 header positions (title with invalid UTF-8, checksum valid / off by one / arbitrary) x generated lengths. Oracle: accepted <=> length >= 0x150 and checksum(0x134..=0x14C) == byte 0x14D and type in {0x00,0x01,0x02,0x03,0x11,0x12,0x13} and length >= declared ROM size; an accepted core has exactly the table's ROM and RAM sizes, maps banks as the controller model of its type says, reads its last declared ROM byte, survives a full 65536-address read sweep and a short run. Rejection = message/None or a Rust panic during load. Non-trivial = distinct (expected outcome and reason, length class, type, size codes). History independence: with the descriptor limit lowered to 64 above what is open, the same valid file (four cartridge kinds) is loaded 300 times (5000 in the thorough tier) in one process, each core dropped again; it must be accepted every time and the number of open descriptors must be back where it was.",
    assumptions: &[
        "size codes outside the documented tables (ROM code not in 0-8/0x52-0x54, RAM code > 5): rejection or the loader's default are both accepted; crashes are not",
        "a file longer than its declared size may be accepted or rejected",
        "a Rust panic with a message during load counts as controlled termination; a signal (SIGBUS/SIGSEGV/abort) never does",
        "models::mbc for the controller behaviour of accepted files",
    ],
    required_classes: &["accept", "reject-checksum", "reject-type", "reject-short-header", "reject-short-body", "len-declared-1", "len-declared", "exhaustive-checksum", "exhaustive-type", "exhaustive-rom-size", "exhaustive-ram-size", "generated-header", "repeated-loads"],
    exhaustive: true,
};

const SUPPORTED: [u8; 7] = [0x00, 0x01, 0x02, 0x03, 0x11, 0x12, 0x13];

#[derive(Clone, Debug)]
struct Case {
    header: Vec<u8>, // 80 bytes, file offsets 0x100..0x150
    len: usize,
    fix_checksum: bool,
}

fn case_json(c: &Case) -> Value {
    json!({"kind": "romfile", "header": hex(&c.header), "file_len": c.len, "fix_checksum": c.fix_checksum})
}

fn base_header(t: u8, rc: u8, rac: u8) -> Vec<u8> {
    let mut h = vec![0u8; 80];
    h[0] = 0x00;
    h[1] = 0xc3;
    h[2] = 0x50;
    h[3] = 0x01;
    for (i, ch) in b"VERIFROM".iter().enumerate() {
        h[0x34 + i] = *ch;
    }
    h[0x47] = t;
    h[0x48] = rc;
    h[0x49] = rac;
    h
}

fn checksum_of(h: &[u8]) -> u8 {
    let mut c = 0u8;
    for b in &h[0x34..=0x4c] {
        c = c.wrapping_sub(*b).wrapping_sub(1);
    }
    c
}

/// file prefix: 0x100 bytes of zeros, the header, a tiny loop at 0x150
fn build_file(c: &Case) -> std::fs::File {
    let mut prefix = vec![0u8; 0x160];
    prefix[0x100..0x150].copy_from_slice(&c.header);
    prefix[0x150] = 0xc3;
    prefix[0x151] = 0x50;
    prefix[0x152] = 0x01;
    let mut f = memfd_sparse(&prefix, c.len);
    // stamp banks that exist in the file (first two and last two bytes of the bank)
    for b in stamped_banks(c.len / 0x4000) {
        let _ = f.seek(SeekFrom::Start((b * 0x4000) as u64));
        let _ = f.write_all(&[(b & 0xff) as u8, ((b >> 8) as u8) ^ 0xa5]);
        let _ = f.seek(SeekFrom::Start((b * 0x4000 + 0x3ffe) as u64));
        let _ = f.write_all(&[(b & 0xff) as u8 ^ 0x3c, 0x99]);
    }
    // bank 0 carries the end-of-bank stamp too (a bank number that wraps to 0 shows it at 0x7FFE)
    if c.len >= 0x4000 {
        let _ = f.seek(SeekFrom::Start(0x3ffe));
        let _ = f.write_all(&[0x3c, 0x99]);
    }
    let _ = f.seek(SeekFrom::Start(0));
    f
}

/// banks that carry their index (all of them up to 128 banks, a spread of 60-odd plus the last beyond)
fn stamped_banks(n: usize) -> Vec<usize> {
    if n <= 128 {
        (1..n).collect()
    } else {
        let step = n / 61;
        let mut v: Vec<usize> = (1..n).step_by(step).collect();
        if !v.contains(&(n - 1)) {
            v.push(n - 1);
        }
        v
    }
}

#[derive(Debug, PartialEq, Eq, Clone, Copy)]
enum Expect {
    Accept,
    Reject(&'static str),
    Either,
}

fn expectation(c: &Case) -> (Expect, usize, usize) {
    let h = &c.header;
    if c.len < 0x150 {
        return (Expect::Reject("short-header"), 0, 0);
    }
    if checksum_of(h) != h[0x4d] {
        return (Expect::Reject("checksum"), 0, 0);
    }
    if !SUPPORTED.contains(&h[0x47]) {
        return (Expect::Reject("type"), 0, 0);
    }
    let banks = rom_banks_for_code(h[0x48]);
    let ram = ram_bytes_for_code(h[0x49]);
    match (banks, ram) {
        (Some(b), Some(r)) => {
            if c.len < b * 0x4000 {
                (Expect::Reject("short-body"), b, r)
            } else if c.len > b * 0x4000 {
                (Expect::Either, b, r)
            } else {
                (Expect::Accept, b, r)
            }
        }
        _ => (Expect::Either, banks.unwrap_or(0), ram.unwrap_or(usize::MAX)),
    }
}

enum Outcome {
    Loaded(Box<gbint::emulator::Core>),
    None_,
    Panicked(String),
}

fn load(c: &Case) -> (Outcome, std::fs::File) {
    let f = build_file(c);
    let path = fd_path(&f);
    let r = guarded(|| gbint::verif_load_rom(path));
    let o = match r {
        Ok(Some(core)) => Outcome::Loaded(Box::new(core)),
        Ok(None) => Outcome::None_,
        Err(msg) => Outcome::Panicked(msg),
    };
    (o, f)
}

fn finalize(c: &Case) -> Case {
    let mut c = c.clone();
    if c.fix_checksum {
        c.header[0x4d] = checksum_of(&c.header);
    }
    c
}

fn len_class(c: &Case, banks: usize) -> &'static str {
    let d = banks * 0x4000;
    match c.len {
        0 => "len-0",
        0xff => "len-0xff",
        0x100 => "len-0x100",
        0x14f => "len-0x14f",
        0x150 => "len-0x150",
        l if d > 0 && l + 1 == d => "len-declared-1",
        l if d > 0 && l == d => "len-declared",
        l if d > 0 && l == d + 1 => "len-declared+1",
        l if d > 0 && l < d => "len-below-declared",
        l if d > 0 && l > d => "len-above-declared",
        _ => "len-other",
    }
}

fn exec_case(c0: &Case, rec: &mut Rec, counting: bool) -> CaseResult {
    let c = finalize(c0);
    let (exp, banks, ram) = expectation(&c);
    if counting {
        rec.current(&case_json(&c).to_string());
        rec.eval(1);
        let cls = match exp {
            Expect::Accept => "accept".to_string(),
            Expect::Reject(r) => format!("reject-{}", r),
            Expect::Either => "either".to_string(),
        };
        rec.class(&cls, 1);
        let lc = len_class(&c, banks);
        rec.class(lc, 1);
        rec.nontrivial(fnv(format!("{}{}{}{}{}", cls, lc, c.header[0x47], c.header[0x48], c.header[0x49]).as_bytes()));
    }
    let (o, _file) = load(&c);
    match (exp, o) {
        (Expect::Reject(why), Outcome::Loaded(core)) => {
            // the core's memory is not touched: that is where the fault would be
            drop(core);
            Err(Fail::new(
                format!("accepted-{}", why),
                format!(
                    "the loader accepted a file that must be rejected ({}): length {:#x}, type {:#04x}, ROM code {:#04x}, RAM code {:#04x}, checksum byte {:#04x} (computed {:#04x})",
                    why, c.len, c.header[0x47], c.header[0x48], c.header[0x49], c.header[0x4d], checksum_of(&c.header)
                ),
            ))
        }
        (Expect::Reject(_), _) => Ok(()),
        (Expect::Accept, Outcome::None_) => Err(Fail::new("rejected-valid", format!("a valid ROM file (type {:#04x}, ROM code {:#04x}, RAM code {:#04x}, length {:#x}) was rejected", c.header[0x47], c.header[0x48], c.header[0x49], c.len))),
        (Expect::Accept, Outcome::Panicked(m)) => Err(Fail::new("rejected-valid-panic", format!("loading a valid ROM file (type {:#04x}, ROM code {:#04x}, RAM code {:#04x}, length {:#x}) panicked: {}", c.header[0x47], c.header[0x48], c.header[0x49], c.len, m))),
        (Expect::Either, Outcome::None_) | (Expect::Either, Outcome::Panicked(_)) => Ok(()),
        (e, Outcome::Loaded(mut core)) => {
            // sizes and behaviour
            let rom_len = core.memory.rom.len();
            let ram_len = core.memory.cart_ram.len();
            if e == Expect::Accept {
                if rom_len != banks * 0x4000 {
                    return Err(Fail::new("rom-size", format!("ROM size code {:#04x}: the core maps {} bytes, the header table gives {}", c.header[0x48], rom_len, banks * 0x4000)));
                }
                if ram_len != ram {
                    return Err(Fail::new("ram-size", format!("RAM size code {:#04x}: the core has {} bytes of cartridge RAM, the header table gives {}", c.header[0x49], ram_len, ram)));
                }
            } else {
                // gray zone: whatever was chosen must be backed by the file
                if rom_len > c.len {
                    drop(core);
                    return Err(Fail::new("rom-beyond-file", format!("the core maps {} bytes of ROM from a {}-byte file (ROM code {:#04x})", rom_len, c.len, c.header[0x48])));
                }
                if banks > 0 && rom_len != banks * 0x4000 {
                    return Err(Fail::new("rom-size", format!("ROM size code {:#04x}: the core maps {} bytes, the header table gives {}", c.header[0x48], rom_len, banks * 0x4000)));
                }
                if ram != usize::MAX && ram_len != ram {
                    return Err(Fail::new("ram-size", format!("RAM size code {:#04x}: the core has {} bytes of cartridge RAM, the header table gives {}", c.header[0x49], ram_len, ram)));
                }
            }
            let nb = rom_len / 0x4000;
            let stamps: Vec<usize> = stamped_banks(c.len / 0x4000).into_iter().filter(|b| *b < nb).collect();
            let kind = kind_for_type(c.header[0x47]).unwrap();
            let mut model = Mbc::new(kind, nb, 0);
            let p = &mut core.memory as *mut gbint::mem::MemoryAreas;
            let r = guarded(|| {
                // controller behaviour: select a few banks, read the stamps
                let sels: Vec<u8> = vec![1, 2, (nb.saturating_sub(1) & 0x7f) as u8, 0, 0x1f, 0x7f, 3];
                for s in sels {
                    gbint::mem::memory_write_byte(p, 0x2000, s);
                    model.write(0x2000, s);
                    let want = model.rom_bank_high();
                    let got_lo = gbint::mem::memory_read_byte(p, 0x4000) as usize | ((gbint::mem::memory_read_byte(p, 0x4001) ^ 0xa5) as usize) << 8;
                    if want.len() == 1 && want[0] >= 1 && stamps.contains(&want[0]) && got_lo != want[0] {
                        return Err(format!("after writing {:#04x} to 0x2000 the {:?} controller of a {}-bank ROM must map bank {} at 0x4000, stamp read there says {}", s, kind, nb, want[0], got_lo));
                    }
                    // the stamp at the end of the bank, which bank 0 carries as well: a bank
                    // number that reduces to 0 on a small ROM must show bank 0
                    if want.len() == 1 && (want[0] == 0 || stamps.contains(&want[0])) && c.len >= 0x4000 * (want[0] + 1) {
                        let (e0, e1) = (gbint::mem::memory_read_byte(p, 0x7ffe), gbint::mem::memory_read_byte(p, 0x7fff));
                        if e1 != 0x99 || e0 ^ 0x3c != (want[0] & 0xff) as u8 {
                            return Err(format!("after writing {:#04x} to 0x2000 the {:?} controller of a {}-bank ROM must map bank {} at 0x4000; the end-of-bank stamp read at 0x7FFE says bank {} (marker {:#04x})", s, kind, nb, want[0], e0 ^ 0x3c, e1));
                        }
                    }
                }
                // last declared ROM byte
                if nb >= 2 {
                    let last = nb - 1;
                    if last <= 0x7f || kind == models::mbc::Kind::Mbc1 {
                        gbint::mem::memory_write_byte(p, 0x6000, 0);
                        gbint::mem::memory_write_byte(p, 0x2000, (last & 0x1f) as u8 | if kind == models::mbc::Kind::Mbc3 { (last & 0x60) as u8 } else { 0 });
                        gbint::mem::memory_write_byte(p, 0x4000, (last >> 5) as u8 & 3);
                    }
                    let _ = gbint::mem::memory_read_byte(p, 0x7fff);
                }
                // the very last byte of the mapping, directly
                let _ = core.memory.rom[rom_len - 1];
                let mut acc = 0u32;
                for a in 0..=0xffffu32 {
                    acc = acc.wrapping_add(gbint::mem::memory_read_word(p, a as u16) as u32);
                }
                Ok(acc)
            });
            match r {
                Err(m) => return Err(Fail::new("panic-after-load", format!("after a successful load a bus access panicked: {}", m))),
                Ok(Err(m)) => return Err(Fail::new("controller", m)),
                Ok(Ok(_)) => {}
            }
            // short run from the entry point (only when the header's entry bytes are the standard NOP; JP 0x150)
            if c.header[0..4] != [0x00, 0xc3, 0x50, 0x01] {
                return Ok(());
            }
            let r = guarded(|| {
                for _ in 0..64 {
                    core.run_code_block();
                }
                core.registers.ip
            });
            match r {
                Err(m) => Err(Fail::new("panic-running", format!("after a successful load, running the ROM's entry loop panicked: {}", m))),
                Ok(ip) if !(0x100..=0x152).contains(&ip) => Err(Fail::new("entry", format!("the loaded ROM did not execute its entry point loop (PC = {:#06x})", ip))),
                Ok(_) => Ok(()),
            }
        }
    }
}

fn lengths_for(banks: usize) -> Vec<usize> {
    let d = banks * 0x4000;
    let mut v = vec![0, 0xff, 0x100, 0x14f, 0x150, 0x1000];
    if d > 0 {
        v.extend([d - 0x1000, d - 1, d, d + 1, d + 0x4000]);
    }
    v
}

fn run_enum(rec: &mut Rec, name: &str, cases: Vec<Case>) {
    for (k, c) in cases.iter().enumerate() {
        if !rec.ctx.mine(k) || rec.too_many() {
            continue;
        }
        rec.class(name, 1);
        if let Err(f) = exec_case(c, rec, true) {
            rec.violation(&f.sig, case_json(&finalize(c)), f.detail);
        }
        if k % 97 == 0 {
            rec.sample(|| case_json(&finalize(c)));
        }
    }
}

fn run(rec: &mut Rec) {
    let thorough = rec.ctx.tier == Tier::Thorough;
    // exhaustive over the checksum byte
    let mut v = Vec::new();
    for (t, rc, rac) in [(0x01u8, 0x01u8, 0x00u8), (0x13, 0x02, 0x03), (0x00, 0x00, 0x00)] {
        let banks = rom_banks_for_code(rc).unwrap();
        for ck in 0..=255u8 {
            for len in [banks * 0x4000, 0x150, banks * 0x4000 - 1] {
                let mut h = base_header(t, rc, rac);
                h[0x4d] = ck;
                v.push(Case { header: h, len, fix_checksum: false });
            }
        }
    }
    run_enum(rec, "exhaustive-checksum", v);
    // exhaustive over the type byte x length classes
    let mut v = Vec::new();
    for t in 0..=255u8 {
        for len in lengths_for(4) {
            v.push(Case { header: base_header(t, 0x01, 0x02), len, fix_checksum: true });
        }
    }
    run_enum(rec, "exhaustive-type", v);
    // exhaustive over the ROM-size byte x length classes (for codes in the table: their own classes)
    let mut v = Vec::new();
    for rc in 0..=255u8 {
        let banks = rom_banks_for_code(rc).unwrap_or(2);
        for t in if thorough { vec![0x00u8, 0x01, 0x11, 0x03, 0x13] } else { vec![0x01u8, 0x11] } {
            for len in lengths_for(banks) {
                v.push(Case { header: base_header(t, rc, 0x03), len, fix_checksum: true });
            }
        }
    }
    run_enum(rec, "exhaustive-rom-size", v);
    let mut v = Vec::new();
    for rac in 0..=255u8 {
        for t in [0x03u8, 0x13, 0x00] {
            for len in [0x8000usize, 0x7fff, 0x150] {
                v.push(Case { header: base_header(t, 0x00, rac), len, fix_checksum: true });
            }
        }
    }
    run_enum(rec, "exhaustive-ram-size", v);
    rec.exhaustive_part("checksum byte (256), cartridge-type byte (256), ROM-size byte (256), RAM-size byte (256), each with the other header fields valid, x file-length classes");
    // generated headers
    let cases = rec.ctx.tier.pick(400u32, 6000);
    let type_s = prop_oneof![4 => prop::sample::select(SUPPORTED.to_vec()), 1 => prop::sample::select(vec![0x05u8, 0x06, 0x19, 0x1b, 0xfc, 0xff, 0x04, 0x10, 0x14]), 1 => any::<u8>()];
    let rom_s = prop_oneof![5 => 0u8..=6, 1 => prop::sample::select(vec![7u8, 8, 0x52, 0x53, 0x54]), 1 => any::<u8>()];
    let ram_s = prop_oneof![5 => 0u8..=5, 1 => any::<u8>()];
    let strat = (prop::collection::vec(any::<u8>(), 80), type_s, rom_s, ram_s, 0u8..8, 0u8..12, any::<u16>()).prop_map(|(mut h, t, rc, rac, ckmode, lenclass, jitter)| {
        h[0x47] = t;
        h[0x48] = rc;
        h[0x49] = rac;
        if jitter % 4 != 0 {
            h[0..4].copy_from_slice(&[0x00, 0xc3, 0x50, 0x01]);
        }
        let banks = rom_banks_for_code(rc).unwrap_or(2);
        let d = banks * 0x4000;
        let len = match lenclass {
            0 => d,
            1 => d,
            2 => d,
            3 => d - 1,
            4 => d + 1,
            5 => d - 0x1000,
            6 => 0x150,
            7 => 0x14f,
            8 => jitter as usize % 0x200,
            9 => (jitter as usize * 64) % (d + 0x8000),
            10 => d / 2,
            _ => d + 0x4000,
        };
        let mut c = Case { header: h, len, fix_checksum: ckmode < 5 };
        if ckmode == 5 {
            c.header[0x4d] = checksum_of(&c.header).wrapping_add(1);
        } else if ckmode == 6 {
            c.header[0x4d] = checksum_of(&c.header).wrapping_sub(1);
        }
        c
    });
    run_generated(rec, "gen", cases, strat, |c| case_json(&finalize(c)), |c, rec, counting| {
        if counting {
            rec.class("generated-header", 1);
        }
        exec_case(c, rec, counting)
    });
    // history independence: many loads in one process, under a low descriptor limit
    for (k, (t, rc)) in [(0x00u8, 0x00u8), (0x01, 0x01), (0x13, 0x02), (0x03, 0x05)].iter().enumerate() {
        if rec.ctx.mine(3 + 4 * k) && !rec.too_many() {
            repeated_loads(rec, *t, *rc, rec.ctx.tier.pick(300u32, 5000), 64);
        }
    }
}

/// Acceptance must not depend on how many files the process has loaded before: with the
/// descriptor limit lowered to `limit`, the same valid file is loaded `loads` times (each
/// core dropped again) and must be accepted every time, and the number of open descriptors
/// must be back where it was.
fn repeated_loads(rec: &mut Rec, t: u8, rc: u8, loads: u32, limit: u64) {
    let case = json!({"kind": "repeated-loads", "type": t, "rom_code": rc, "loads": loads, "descriptor_limit": limit});
    rec.current(&case.to_string());
    rec.class("repeated-loads", 1);
    rec.nontrivial(fnv(case.to_string().as_bytes()));
    let c = finalize(&Case { header: base_header(t, rc, if t == 0 { 0 } else { 2 }), len: rom_banks_for_code(rc).unwrap() * 0x4000, fix_checksum: true });
    let count_fds = || std::fs::read_dir("/proc/self/fd").map(|d| d.count()).unwrap_or(0);
    let mut old = libc::rlimit { rlim_cur: 0, rlim_max: 0 };
    unsafe { libc::getrlimit(libc::RLIMIT_NOFILE, &mut old) };
    let before = count_fds();
    let lowered = libc::rlimit { rlim_cur: (before as u64 + limit).min(old.rlim_max), rlim_max: old.rlim_max };
    unsafe { libc::setrlimit(libc::RLIMIT_NOFILE, &lowered) };
    let mut failed: Option<(u32, String)> = None;
    for k in 0..loads {
        rec.progress(k as u64);
        let (o, f) = load(&c);
        match o {
            Outcome::Loaded(core) => drop(core),
            Outcome::None_ => {
                failed = Some((k, "rejected".to_string()));
            }
            Outcome::Panicked(m) => {
                failed = Some((k, format!("panicked: {}", m)));
            }
        }
        drop(f);
        if failed.is_some() {
            break;
        }
    }
    unsafe { libc::setrlimit(libc::RLIMIT_NOFILE, &old) };
    rec.eval(loads as u64);
    let after = count_fds();
    if let Some((k, how)) = failed {
        rec.violation("accept-depends-on-history", case, format!("a valid file (type {:#04x}, ROM code {:#04x}) was accepted {} times and then {} (descriptor limit {} above the {} already open; {} descriptors open afterwards)", t, rc, k, how, limit, before, after));
    } else if after > before + 2 {
        rec.violation("accept-depends-on-history", case, format!("after {} accepted loads of a valid file (each core dropped again) {} descriptors are open, {} before: later loads will be refused once the limit is reached", loads, after, before));
    }
}

fn replay(case: &Value, rec: &mut Rec) {
    if case.get("kind").and_then(|k| k.as_str()) == Some("repeated-loads") {
        let g = |k: &str| case.get(k).and_then(|v| v.as_u64()).unwrap_or(0);
        let (t, rc) = (g("type") as u8, g("rom_code") as u8);
        if rom_banks_for_code(rc).is_none() {
            rec.inconclusive("replay case names an unsupported ROM size");
            return;
        }
        repeated_loads(rec, t, rc, (g("loads") as u32).min(100_000), g("descriptor_limit").max(8));
        return;
    }
    if case.get("kind").and_then(|k| k.as_str()) == Some("fuzz-bytes") {
        let data = unhex(case.get("bytes").and_then(|b| b.as_str()).unwrap_or(""));
        rec.eval(1);
        if let Err(f) = fuzz_file(&data) {
            rec.violation(&f.sig, case.clone(), f.detail);
        }
        return;
    }
    let header = unhex(case.get("header").and_then(|h| h.as_str()).unwrap_or(""));
    if header.len() != 80 {
        rec.inconclusive("replay case needs an 80-byte header");
        return;
    }
    let len = case.get("file_len").and_then(|v| v.as_u64()).unwrap_or(0) as usize;
    let c = Case { header, len, fix_checksum: case.get("fix_checksum").and_then(|v| v.as_bool()).unwrap_or(false) };
    if let Err(f) = exec_case(&c, rec, true) {
        rec.violation(&f.sig, case_json(&finalize(&c)), f.detail);
    }
}

#[allow(dead_code)]
fn _unused() {
    let _ = header_checksum;
}

/// fuzz entry: 80 header bytes + two bytes selecting the file length
pub fn fuzz_file(data: &[u8]) -> CaseResult {
    if data.len() < 83 {
        return Ok(());
    }
    let mut header = data[..80].to_vec();
    let sel = data[80];
    let jitter = u16::from_le_bytes([data[81], data[82]]) as usize;
    // keep the search inside loadable sizes: ROM codes above 6 are mapped down unless the byte is exotic
    if header[0x48] > 6 && header[0x48] < 0x50 {
        header[0x48] %= 7;
    }
    let banks = rom_banks_for_code(header[0x48]).unwrap_or(2);
    let d = banks * 0x4000;
    let len = match sel % 8 {
        0 | 1 => d,
        2 => d - 1,
        3 => d + 1,
        4 => 0x150,
        5 => jitter % 0x200,
        6 => (jitter * 64) % (d + 0x8000),
        _ => d / 2,
    };
    let c = Case { header, len, fix_checksum: sel & 0x80 == 0 };
    thread_local! {
        static SCRATCH: std::cell::RefCell<Rec> = std::cell::RefCell::new(Rec::scratch("C19"));
    }
    SCRATCH.with(|r| exec_case(&c, &mut r.borrow_mut(), false)).map_err(|f| Fail::new(f.sig, format!("{} [case {}]", f.detail, case_json(&finalize(&c)))))
}
