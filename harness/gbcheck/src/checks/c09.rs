//! C09 — emulated time is conserved between the CPU and the devices.

use super::common::*;
use crate::engine::*;
use crate::mach::{diff_state, i, j, Emu, RUN};
use crate::prog::{assemble, prog_strategy, ProgSpec};
use crate::refmach::{ime_code, run_code, RefMachine};
use models::irq::Outcome as IrqOutcome;
use proptest::prelude::*;
use serde_json::{json, Value};

pub static DEF: CheckDef = CheckDef {
    id: "C09",
    run,
    replay,
    rule: "the structured programs of C04 (interrupt handlers, timer/LCD interrupts, EI;HALT, STOP, DMA, RAM code, far calls, DI sections) are run in three stepping modes - interpreter build stepped with update() (one instruction per step), interpreter build block-stepped, jit build block-stepped - in lock-step with the reference machine (models::sm83 + models::irq on a twin bus), which computes for every step how many machine cycles the CPU consumed. After every step: the clocks delivered at the MemoryAreas boundary (hook: running total) must equal 4 x (machine cycles of the instruction(s) executed + 5 carried over from a dispatch in the previous step), exactly 4 for a halted/stopped step, and never less than 4; every device must have received them (timer divider phase, LCD mode/dot/line, DMA progress equal to the twin's); the interrupt check must come after the catch-up (PC, SP, IF, IME, run state equal to the reference, which samples after delivering); the 5 dispatch cycles must be pending (Registers.cycles) and last_block_cycle_length must equal the cycles delivered in block modes. Four hand-written corner programs (a dispatch cancelled by its own push with SP = 0x0000, a dispatch whose push lands on IE without cancelling, one landing on IF, a wake-up out of HALT with SP wrapping) run the same way. At the end of every run Core::run_frame() is called: it must return, having delivered at most 2 x 70224 clocks plus one block, and leave the LCD outside mode 1 just after a vertical blank. Non-trivial = run containing a dispatch, a suspended stretch and a multi-cycle block (measured); distinct by hash of (program, mode).",
    assumptions: &[
        "models::sm83 (cycle counts incl. taken/not-taken), models::irq; a block is a whole number of instructions ending at the next terminator at the latest (where the emulator ends one earlier - the 16 KiB ROM boundary today - is its own choice: the reference consumes exactly the time the emulator delivered); EI at a block end takes effect at the block boundary in block modes",
        "a run ends where the reference meets an undefined opcode or HALT with an enabled request pending (counted)",
        "run_frame() is called in a forked child with a 4 s alarm (a frame takes about a millisecond), so a call that never returns is reported as such; device positions are also checked in closed form (divider = clocks since the last DIV write, LCD line/mode = models::lcd at the delivered total), independently of the twin",
    ],
    required_classes: &["mode-instruction", "mode-block-interpreter", "mode-block-jit", "dispatch", "suspended-stretch", "multi-cycle-block", "carried-dispatch-cycles", "run-frame", "corner-program"],
    exhaustive: false,
};

fn case_json(p: &ProgSpec, mode: u8, steps: u32) -> Value {
    json!({"kind": "program-time", "mode": mode, "steps": steps, "spec": p})
}

static FRAME_HUNG: std::sync::atomic::AtomicBool = std::sync::atomic::AtomicBool::new(false);

#[derive(Default)]
struct Stats {
    try_frame: bool,
    dispatch: bool,
    suspended: bool,
    multi: bool,
    carried: bool,
    left: bool,
    steps: u32,
}

fn compare(a: &dyn Emu, r: &RefMachine<i::M>, step: u32, what: &str) -> CaseResult {
    let ra = a.regs();
    let rr = r.regs();
    if let Some(d) = diff_regs(&ra, &rr, true, false) {
        return Err(Fail::new("cpu-state", format!("step {} ({}): {}", step, what, d)));
    }
    if ra.cycles != rr.cycles {
        return Err(Fail::new("pending-dispatch-cycles", format!("step {} ({}): {} machine cycles pending in Registers.cycles, the reference carries {}", step, what, ra.cycles, rr.cycles)));
    }
    if a.ime() != ime_code(r.ime) || a.run_state() != run_code(r.run) {
        return Err(Fail::new("ime-run-state", format!("step {} ({}): IME {} run state {}, reference IME {} run state {}", step, what, a.ime(), a.run_state(), ime_code(r.ime), run_code(r.run))));
    }
    let (sa, st) = (a.scalars(), r.t.scalars());
    for ((n, x), (_, y)) in sa.iter().zip(st.iter()) {
        if ["af", "bc", "de", "hl", "sp", "pc", "pending_cycles", "ime", "run_state"].contains(n) {
            continue;
        }
        if x != y {
            let sig = match *n {
                "divider" | "tima" => "timer-time",
                "lcd_mode" | "lcd_dots" | "lcd_line" | "stat" => "lcd-time",
                "dma" => "dma-time",
                "if" => "interrupt-sampling",
                _ => "device-state",
            };
            return Err(Fail::new(sig, format!("step {} ({}): {} = {:#x}, the twin that received the reference's clocks has {:#x}", step, what, n, x, y)));
        }
    }
    Ok(())
}

fn run_mode(spec: &ProgSpec, mode: u8, steps: u32, st: &mut Stats) -> CaseResult {
    let (rom, _) = assemble(spec);
    run_rom(&rom, mode, steps, st)
}

/// hand-written programs for dispatch corners the generator does not reach:
/// a dispatch cancelled by its own push (SP = 0x0000, the high byte of PC lands on
/// IE), a push landing on IF, dispatch out of HALT with SP at the wrap
fn corner_roms() -> Vec<(&'static str, crate::rom::RomImage)> {
    let mut v = Vec::new();
    let mk = |code: &[u8]| {
        let mut rom = std_rom();
        rom.bytes[0x100..0x104].copy_from_slice(&[0x00, 0xc3, 0x50, 0x01]);
        rom.bytes[0x150..0x150 + code.len()].copy_from_slice(code);
        // every vector and address 0: a short handler that returns with interrupts off
        for a in [0x00usize, 0x40, 0x48, 0x50, 0x58, 0x60] {
            rom.bytes[a..a + 3].copy_from_slice(&[0x3c, 0x18, 0xfe]); // INC A; JR -2 (stay)
        }
        rom
    };
    // cancelled dispatch: IE = IF = timer, SP = 0, PC high byte 0x01 -> IE becomes 0x01
    v.push(("cancelled-dispatch", mk(&[0xf3, 0x31, 0x00, 0x00, 0x3e, 0x04, 0xe0, 0xff, 0x3e, 0x04, 0xe0, 0x0f, 0xfb, 0x00, 0x00, 0x00, 0x18, 0xfe])));
    // not cancelled: IE = IF = VBlank, SP = 0, PC high 0x01 keeps bit 0
    v.push(("dispatch-push-on-ie", mk(&[0xf3, 0x31, 0x00, 0x00, 0x3e, 0x01, 0xe0, 0xff, 0x3e, 0x01, 0xe0, 0x0f, 0xfb, 0x00, 0x00, 0x00, 0x18, 0xfe])));
    // push landing on IF: SP = 0xFF10
    v.push(("dispatch-push-on-if", mk(&[0xf3, 0x31, 0x10, 0xff, 0x3e, 0x1f, 0xe0, 0xff, 0x3e, 0x04, 0xe0, 0x0f, 0xfb, 0x00, 0x00, 0x00, 0x18, 0xfe])));
    // dispatch out of HALT with SP = 0x0001 (wraps), timer running
    v.push(("halt-wake-sp-wrap", mk(&[0xf3, 0x31, 0x01, 0x00, 0x3e, 0xfc, 0xe0, 0x05, 0x3e, 0x05, 0xe0, 0x07, 0x3e, 0x04, 0xe0, 0xff, 0xfb, 0x76, 0x00, 0x18, 0xfe])));
    v
}

fn run_rom(rom: &crate::rom::RomImage, mode: u8, steps: u32, st: &mut Stats) -> CaseResult {
    let rom = rom.clone();
    let mut boxed: Box<dyn Emu> = if mode == 2 { Box::new(j::M::new(&rom)) } else { Box::new(i::M::new(&rom)) };
    let mut t = i::M::new(&rom);
    boxed.fill_ram(0xc09);
    t.fill_ram(0xc09);
    let mut r = RefMachine::new(t);
    let a: &mut dyn Emu = &mut *boxed;
    let mut suspended_run = 0;
    let mut total: u64 = 0;
    let mut div_base: u64 = 0;
    for step in 0..steps {
        // instruction-stepped: the reference goes first (it knows where the domain ends);
        // block-stepped: the emulator goes first and the reference consumes the same time,
        // so that where a block ends short of a terminator is the emulator's choice
        let mut info = None;
        if mode == 0 {
            let i0 = r.step_instruction();
            if i0.out_of_domain.is_some() {
                st.left = true;
                break;
            }
            info = Some(i0);
        } else if r.next_out_of_domain().is_some() {
            st.left = true;
            break;
        }
        let pc0 = a.regs().pc;
        let before = a.clocks_total();
        let was_running = a.run_state() == RUN;
        let res = guarded(|| {
            if mode == 0 {
                a.step_update()
            } else if was_running {
                a.step_block()
            } else {
                a.step_update()
            }
        });
        if let Err(msg) = res {
            if mode != 0 && (msg.contains("Invalid OP") || msg.contains("TRIED TO EXECUTE")) {
                // the block ran into an undefined opcode / out of the executable regions
                st.left = true;
                break;
            }
            return Err(Fail::new("panic", format!("step {} at {:#06x}: the emulator panicked: {}", step, pc0, msg)));
        }
        let delta = a.clocks_total().wrapping_sub(before);
        let info = match info {
            Some(i0) => i0,
            None => {
                let i1 = r.step_block_as(delta);
                if i1.out_of_domain.is_some() {
                    st.left = true;
                    break;
                }
                i1
            }
        };
        st.steps = step + 1;
        let what = if info.executed { format!("block/instruction at {:#06x}, last opcode {:#04x}, {} machine cycles", pc0, info.opcode, info.instr_cycles) } else { format!("suspended at {:#06x}", pc0) };
        if delta < 4 {
            return Err(Fail::new("no-time-passed", format!("step {} ({}): only {} clocks were delivered to the devices", step, what, delta)));
        }
        if delta != info.clocks {
            let sig = if !info.executed {
                "clocks-suspended-step"
            } else if info.clocks as u32 != 4 * info.instr_cycles {
                "clocks-after-dispatch"
            } else {
                "clocks-instruction"
            };
            return Err(Fail::new(sig, format!("step {} ({}): {} clocks were delivered to the devices, the CPU consumed {} machine cycles (x4 = {})", step, what, delta, info.clocks / 4, info.clocks)));
        }
        if mode != 0 && info.executed && a.last_block_cycles() as u64 * 4 != info.clocks {
            return Err(Fail::new("last-block-cycle-length", format!("step {} ({}): last_block_cycle_length = {}, the block consumed {}", step, what, a.last_block_cycles(), info.clocks / 4)));
        }
        compare(a, &r, step, &what)?;
        // device positions in closed form from the delivered total, independent of the twin
        // (accumulated from the per-step deltas: the twin shares the counter in the interpreter-build modes)
        total += delta;
        if info.writes.iter().any(|(ad, _)| *ad == 0xff04) {
            // DIV was written by an instruction of this step, before its clocks were delivered
            div_base = total - delta;
        }
        if matches!(info.irq, IrqOutcome::Dispatched { pushes, .. } if pushes.iter().any(|(ad, _)| *ad == 0xff04)) {
            // ... or by the dispatch's push (runaway stack), after they were delivered
            div_base = total;
        }
        let sc = a.scalars();
        let get = |n: &str| sc.iter().find(|(k, _)| *k == n).map(|x| x.1).unwrap_or(0);
        let want_div = (total - div_base) & 0xffff;
        if get("divider") != want_div {
            return Err(Fail::new("timer-time", format!("step {} ({}): the timer's divider is at {:#06x}; {} clocks were delivered since DIV was last written, so it must be at {:#06x}", step, what, get("divider"), total - div_base, want_div)));
        }
        let pos = models::lcd::position(total);
        if get("lcd_line") != pos.line as u64 || get("lcd_mode") != pos.mode as u64 {
            return Err(Fail::new("lcd-time", format!("step {} ({}): the LCD is at line {} mode {}; {} clocks were delivered since power-on, which is line {} mode {}", step, what, get("lcd_line"), get("lcd_mode"), total, pos.line, pos.mode)));
        }
        if let IrqOutcome::Dispatched { .. } = info.irq {
            st.dispatch = true;
        }
        if info.clocks as u32 > 4 * info.instr_cycles && info.executed {
            st.carried = true;
        }
        if !info.executed {
            suspended_run += 1;
            if suspended_run >= 3 {
                st.suspended = true;
            }
        } else {
            suspended_run = 0;
            if info.instr_cycles >= 6 {
                st.multi = true;
            }
        }
        if step % 128 == 127 {
            if let Some(d) = diff_state(a, &r.t, &["af", "bc", "de", "hl", "sp", "pc", "pending_cycles", "ime", "run_state"]) {
                return Err(Fail::new("memory", format!("step {}: memory differs from the reference: {}", step, d)));
            }
        }
    }
    // run_frame from wherever the program is now (not while shrinking, and not again in
    // this process once it has failed to return: every such call costs the whole alarm)
    if !st.left && st.try_frame && !FRAME_HUNG.load(std::sync::atomic::Ordering::Relaxed) {
        // in a forked child, so that a run_frame() that never returns does not take the worker with it
        let mut fds = [0i32; 2];
        unsafe { libc::pipe(fds.as_mut_ptr()) };
        let pid = unsafe { libc::fork() };
        if pid == 0 {
            unsafe { libc::alarm(4) };
            let before = a.clocks_total();
            let res = guarded(|| a.run_frame());
            let delta = a.clocks_total().wrapping_sub(before);
            let sc = a.scalars();
            let mode_now = sc.iter().find(|(n, _)| *n == "lcd_mode").map(|x| x.1).unwrap_or(9);
            let line = sc.iter().find(|(n, _)| *n == "lcd_line").map(|x| x.1).unwrap_or(999);
            let code: u64 = match res {
                Ok(()) => 0,
                Err(m) if m.contains("Invalid") || m.contains("TRIED TO EXECUTE") => 1,
                Err(_) => 2,
            };
            let rec: [u64; 5] = [code, delta, mode_now, line, a.last_block_cycles() as u64];
            unsafe {
                libc::write(fds[1], rec.as_ptr() as *const libc::c_void, 40);
                libc::_exit(0);
            }
        }
        let mut status = 0;
        unsafe {
            libc::close(fds[1]);
            libc::waitpid(pid, &mut status, 0);
        }
        let mut rec = [0u64; 5];
        let n = unsafe { libc::read(fds[0], rec.as_mut_ptr() as *mut libc::c_void, 40) };
        unsafe { libc::close(fds[0]) };
        if libc::WIFSIGNALED(status) || n != 40 {
            let sig = if libc::WIFSIGNALED(status) { libc::WTERMSIG(status) } else { 0 };
            FRAME_HUNG.store(true, std::sync::atomic::Ordering::Relaxed);
            return Err(Fail::new("run-frame-does-not-return", format!("run_frame() did not return within 4 s of CPU time (child ended by signal {}); LCDC = {:#04x}", sig, a.read(0xff40))));
        }
        if rec[0] == 1 {
            return Ok(());
        }
        if rec[0] == 2 {
            return Err(Fail::new("run-frame-panic", "run_frame() panicked".to_string()));
        }
        let delta = rec[1];
        let bound = 2 * 70224 + 4 * (rec[4] + 5) + 4 * 64;
        if delta > bound {
            return Err(Fail::new("run-frame-too-long", format!("run_frame() delivered {} clocks (> two frames + one block = {})", delta, bound)));
        }
        let (mode_now, line) = (rec[2], rec[3]);
        if mode_now == 1 || line > 20 {
            return Err(Fail::new("run-frame-position", format!("after run_frame() the LCD is at line {} in mode {} (expected: just after the vertical blank)", line, mode_now)));
        }
        return Ok(());
    }
    Ok(())
}

fn exec(spec: &ProgSpec, mode: u8, steps: u32, rec: &mut Rec, counting: bool) -> CaseResult {
    let mut st = Stats::default();
    st.try_frame = counting;
    let r = run_mode(spec, mode, steps, &mut st);
    if counting {
        rec.eval(1);
        rec.class(["mode-instruction", "mode-block-interpreter", "mode-block-jit"][mode as usize % 3], 1);
        for (n, on) in [("dispatch", st.dispatch), ("suspended-stretch", st.suspended), ("multi-cycle-block", st.multi), ("carried-dispatch-cycles", st.carried)] {
            if on {
                rec.class(n, 1);
            }
        }
        if st.left {
            rec.class("left-domain", 1);
        } else {
            rec.class("run-frame", 1);
        }
        rec.class("steps-executed", st.steps as u64);
        rec.sample(|| case_json(spec, mode, steps));
        if st.dispatch && st.suspended && st.multi {
            rec.nontrivial(fnv(format!("{}{:?}", mode, spec).as_bytes()));
        }
    }
    r
}

fn run(rec: &mut Rec) {
    if rec.ctx.nshards >= 4 && rec.ctx.shard % 2 == 1 {
        return;
    }
    if rec.ctx.shard == 0 {
        for (name, rom) in corner_roms() {
            for mode in 0..3u8 {
                let case = json!({"kind": "corner-program", "name": name, "mode": mode});
                rec.current(&case.to_string());
                rec.eval(1);
                rec.class("corner-program", 1);
                rec.nontrivial_direct(1);
                let mut st = Stats::default();
                st.try_frame = false;
                if let Err(f) = run_rom(&rom, mode, 60, &mut st) {
                    rec.violation(&format!("{}-{}", name, f.sig), case, f.detail);
                }
            }
        }
    }
    let steps = rec.ctx.tier.pick(2500u32, 25_000);
    let cases = rec.ctx.tier.pick(250u32, 5000);
    let strat = (prog_strategy(40), 0u8..3);
    fn to_json(v: &(ProgSpec, u8)) -> Value {
        case_json(&v.0, v.1, 0)
    }
    run_generated(rec, "programs", cases, strat, to_json, |(p, mode), rec, counting| {
        if counting {
            rec.current(&case_json(p, *mode, steps).to_string());
        }
        exec(p, *mode, steps, rec, counting)
    });
    for v in rec.res.violations.iter_mut() {
        if let Some(m) = v.case.as_object_mut() {
            m.insert("steps".into(), json!(steps));
        }
    }
}

fn replay(case: &Value, rec: &mut Rec) {
    if case.get("kind").and_then(|k| k.as_str()) == Some("corner-program") {
        let name = case.get("name").and_then(|v| v.as_str()).unwrap_or("");
        let mode = case.get("mode").and_then(|v| v.as_u64()).unwrap_or(0) as u8 % 3;
        for (n, rom) in corner_roms() {
            if n == name {
                let mut st = Stats::default();
                rec.eval(1);
                if let Err(f) = run_rom(&rom, mode, 60, &mut st) {
                    rec.violation(&format!("{}-{}", n, f.sig), case.clone(), f.detail);
                }
            }
        }
        return;
    }
    let spec: ProgSpec = match case.get("spec").cloned().and_then(|v| serde_json::from_value(v).ok()) {
        Some(s) => s,
        None => {
            rec.inconclusive("replay case is not a program");
            return;
        }
    };
    let mode = case.get("mode").and_then(|v| v.as_u64()).unwrap_or(0) as u8 % 3;
    let mut steps = case.get("steps").and_then(|v| v.as_u64()).unwrap_or(2500) as u32;
    if steps == 0 {
        steps = 2500;
    }
    rec.current(&case.to_string());
    if let Err(f) = exec(&spec, mode, steps, rec, true) {
        rec.violation(&f.sig, case_json(&spec, mode, steps), f.detail);
    }
}
