//! C11 — no guest-controlled bus access can crash the emulator.

use super::common::*;
use crate::engine::*;
use crate::mach::{i, Emu};
use crate::rom::{fd_path, memfd_sparse, ram_bytes_for_code, rom_banks_for_code, RomImage};
use serde_json::{json, Value};

pub static DEF: CheckDef = CheckDef {
    id: "C11",
    run,
    replay,
    rule: "every supported header combination (7 cartridge types x 12 ROM-size codes x 6 RAM-size codes = 504 configurations, each loaded with Core::from_rom_file from a sparse in-memory file of the declared size) x banking-register states (all register-edge values of bank-low x upper x mode, reached by guest writes; plus generated write histories) x every one of the 65536 addresses x {byte read, word read, byte write, word write, stack-order word write} through the five bus helpers, plus OAM DMA from all 256 source pages and the instruction-fetch view of every region. Device registers: proptest histories of up to 59 stores to 0xFF00-0xFF7F / 0xFFFF (byte and word; values biased to those that arm the devices) interleaved with time passing and register reads, then every listed register written with every value of a small set. File lengths: for 4 cartridge types x 6 ROM-size codes, files of 16 lengths around the declared size (exact, longer, one byte / half a page / one page / several pages / almost a bank / a whole bank short, half the size) go through the loader main() uses; whatever it accepts counts as a loadable file, and then every bank is selected and read across its whole window (a mapping reaching past the end of the file faults there). The oracle is survival: a worker that dies by signal/abort, or a Rust panic, is a violation and the progress counter names the access. Non-trivial = distinct (configuration, banking state, access kind) sweeps, each of 65536 addresses.",
    assumptions: &[
        "builds with overflow checks and debug assertions on (harness release profile sets both)",
        "the test-only constructor Core::with_code_block (4 KiB work RAM) is not a loadable ROM file and is out of scope",
    ],
    required_classes: &["read", "word-read", "write", "word-write", "push-word", "dma", "fetch-view", "no-ram", "ram-2k", "bank-beyond-size", "short-file-rejected", "full-file-loaded", "io-register-history"],
    exhaustive: false,
};

const TYPES: [u8; 7] = [0x00, 0x01, 0x02, 0x03, 0x11, 0x12, 0x13];
const ROM_CODES: [u8; 12] = [0, 1, 2, 3, 4, 5, 6, 7, 8, 0x52, 0x53, 0x54];
const RAM_CODES: [u8; 6] = [0, 1, 2, 3, 4, 5];

fn make(t: u8, rc: u8, rac: u8) -> i::M {
    // header-only prefix, sparse file of the declared size
    let mut img = RomImage::new(t, 0, rac, 0x00);
    img.bytes[0x148] = rc;
    img.fix_checksum();
    let banks = rom_banks_for_code(rc).unwrap();
    let f = memfd_sparse(&img.bytes[..0x4000], banks * 0x4000);
    let mut file = f;
    let header = gbint::system::read_header(&mut file).expect("header");
    let header2 = gbint::system::read_header(&mut file).expect("header");
    let core = Box::new(gbint::emulator::Core::from_rom_file(&mut file, header2));
    i::M { core, header, file }
}

/// Files of every length around the declared size, through the loader `main` uses: whatever
/// the loader accepts is a loadable ROM file, and then every ROM bank must be readable to its
/// last byte (a mapping that reaches past the end of the file faults on access).
fn file_length_case(rec: &mut Rec, t: u8, rc: u8, rac: u8, len: usize) {
    let case = json!({"kind": "file-length", "type": t, "rom_code": rc, "ram_code": rac, "length": len});
    rec.current(&case.to_string());
    let mut img = RomImage::new(t, 0, rac, 0x00);
    img.bytes[0x148] = rc;
    img.fix_checksum();
    let banks = rom_banks_for_code(rc).unwrap();
    let f = memfd_sparse(&img.bytes[..0x4000], len);
    let path = fd_path(&f);
    let loaded = guarded(|| gbint::verif_load_rom(path));
    rec.eval(1);
    let declared = banks * 0x4000;
    let core = match loaded {
        Err(msg) => {
            rec.violation("panic-load", case, format!("the loader panicked on a file of {} bytes declaring {} banks: {}", len, banks, msg));
            return;
        }
        Ok(None) => {
            rec.class(if len < declared { "short-file-rejected" } else { "file-rejected" }, 1);
            return;
        }
        Ok(Some(core)) => core,
    };
    rec.class(if len < declared { "short-file-loaded (judged like any loadable file)" } else { "full-file-loaded" }, 1);
    rec.nontrivial(fnv(format!("file{}{}{}{}", t, rc, rac, len).as_bytes()));
    let header = {
        let mut ff = f.try_clone().expect("dup");
        gbint::system::read_header(&mut ff).expect("header")
    };
    let mut m = i::M { core: Box::new(core), header, file: f };
    let r = guarded(|| {
        let mut sum = 0u32;
        for bank in 0..banks.max(2) {
            m.write(0x6000, 0);
            m.write(0x2000, (bank & 0x1f) as u8);
            m.write(0x4000, (bank >> 5) as u8);
            if t >= 0x0f {
                m.write(0x2000, (bank & 0x7f) as u8);
            }
            rec.progress(bank as u64);
            let mut a = 0x4000u32;
            while a < 0x8000 {
                sum = sum.wrapping_add(m.read(a as u16) as u32);
                a += 0x200;
            }
            sum = sum.wrapping_add(m.read(0x7fff) as u32).wrapping_add(m.read_word(0x7ffe) as u32);
            sum = sum.wrapping_add(m.read(0x3fff) as u32).wrapping_add(m.read(0x0000) as u32);
        }
        sum
    });
    rec.eval(banks as u64 * 36);
    if let Err(msg) = r {
        rec.violation("panic-file-length", case, format!("reading the banks of an accepted file of {} bytes (declared {} banks) panicked: {}", len, banks, msg));
    }
}

fn file_length_layer(rec: &mut Rec) {
    let mut idx = 0usize;
    for t in [0x00u8, 0x01, 0x03, 0x13] {
        for rc in [0u8, 1, 2, 3, 5, 0x52] {
            if t == 0 && rc != 0 {
                continue;
            }
            let declared = rom_banks_for_code(rc).unwrap() * 0x4000;
            let mut lens: Vec<usize> = vec![declared, declared + 1, declared + 0x4000, declared - 1, declared - 0x7ff, declared - 0x800, declared - 0x1000, declared - 0x1001, declared - 0x2000, declared - 0x3000, declared - 0x3fff, declared - 0x4000, declared - 0x4001, declared / 2, 0x8000, 0x4000 + 0x1000];
            lens.sort();
            lens.dedup();
            for len in lens {
                if len < 0x150 {
                    continue;
                }
                idx += 1;
                if !rec.ctx.mine(idx) || rec.too_many() {
                    continue;
                }
                file_length_case(rec, t, rc, if t == 0 { 0 } else { 3 }, len);
            }
        }
    }
}

/// Device registers are guest-controlled state too: histories of stores to 0xFF00-0xFF7F /
/// 0xFFFF (values biased to the ones that arm the devices: TIMA = 0xFF, TAC 4-7, STAT enables,
/// LYC = LY, DMA pages) interleaved with time passing, then every register read and written
/// once more with every value of a small set. Survival is the oracle.
fn io_history(m: &mut i::M, ops: &[(u8, u8, u8, u16)], rec: &mut Rec) -> Result<(), String> {
    const REGS: [u8; 24] = [0x00, 0x01, 0x02, 0x04, 0x05, 0x06, 0x07, 0x0f, 0x40, 0x41, 0x42, 0x43, 0x44, 0x45, 0x46, 0x47, 0x48, 0x49, 0x4a, 0x4b, 0xff, 0x10, 0x26, 0x7f];
    const VALS: [u8; 12] = [0xff, 0x00, 0x04, 0x05, 0x06, 0x07, 0x80, 0x40, 0x20, 0xfe, 0x01, 0x91];
    guarded(|| {
        for (k, (kind, reg, v, n)) in ops.iter().enumerate() {
            rec.progress(k as u64);
            let addr = 0xff00u16 | if kind & 8 != 0 { *reg as u16 } else { REGS[*reg as usize % REGS.len()] as u16 };
            let val = if kind & 16 != 0 { *v } else { VALS[*v as usize % VALS.len()] };
            match kind % 4 {
                0 | 1 => m.write(addr, val),
                2 => m.run_clocks(4 * (1 + *n as usize % 20000)),
                _ => {
                    m.write_word(addr, (val as u16) << 8 | *n & 0xff);
                }
            }
            if k % 7 == 6 {
                for r in REGS {
                    m.read(0xff00 | r as u16);
                }
            }
        }
        for r in REGS {
            for v in VALS {
                m.write(0xff00 | r as u16, v);
                m.read_word(0xff00 | r as u16);
                m.run_clocks(4);
            }
        }
    })
}

fn bank_states(quick: bool) -> Vec<Vec<(u16, u8)>> {
    let lows: &[u8] = if quick { &[0x00, 0x01, 0x1f, 0x7f, 0xff] } else { &[0x00, 0x01, 0x02, 0x1f, 0x20, 0x3f, 0x40, 0x7f, 0x80, 0xff] };
    let ups: &[u8] = if quick { &[0x00, 0x03, 0xff] } else { &[0x00, 0x01, 0x02, 0x03, 0x04, 0x08, 0x0c, 0xff] };
    let mut v = vec![vec![]];
    for &lo in lows {
        for &up in ups {
            for mode in [0u8, 1] {
                v.push(vec![(0x0000, 0x0a), (0x2000, lo), (0x4000, up), (0x6000, mode)]);
            }
        }
    }
    v
}

fn case(cfg: (u8, u8, u8), state: &[(u16, u8)], phase: &str) -> Value {
    json!({"kind": "bus", "type": cfg.0, "rom_code": cfg.1, "ram_code": cfg.2, "state": state, "phase": phase})
}

/// one phase over the whole address space; progress = address
fn sweep(rec: &mut Rec, m: &mut i::M, cfg: (u8, u8, u8), state: &[(u16, u8)], phase: &str) -> Result<(), String> {
    rec.current(&case(cfg, state, phase).to_string());
    let r = guarded(|| match phase {
        "read" => {
            let mut acc = 0u32;
            for a in 0..=0xffffu32 {
                rec.progress(a as u64);
                acc = acc.wrapping_add(m.read(a as u16) as u32);
            }
            acc
        }
        "word-read" => {
            let mut acc = 0u32;
            for a in 0..=0xffffu32 {
                rec.progress(a as u64);
                acc = acc.wrapping_add(m.read_word(a as u16) as u32);
            }
            acc
        }
        "write" => {
            // high to low so that bank registers are rewritten last
            for a in (0..=0xffffu32).rev() {
                rec.progress(a as u64);
                m.write(a as u16, (a as u8).wrapping_mul(29) ^ 0x5a);
            }
            0
        }
        "word-write" => {
            for a in (0..=0xffffu32).rev() {
                rec.progress(a as u64);
                m.write_word(a as u16, (a as u16).wrapping_mul(257) ^ 0x1234);
            }
            0
        }
        "push-word" => {
            // the stack-order store used by translated PUSH / CALL / RST
            let p = &mut m.core.memory as *mut gbint::mem::MemoryAreas;
            for a in (0..=0xffffu32).rev() {
                rec.progress(a as u64);
                gbint::mem::memory_push_word(p, a as u16, (a as u16).wrapping_mul(263) ^ 0x4321);
            }
            0
        }
        "dma" => {
            for page in 0..=255u32 {
                rec.progress(page as u64);
                m.write(0xff46, page as u8);
                m.run_clocks(4 * 100);
                m.run_clocks(4 * 80);
            }
            0
        }
        _ => {
            // instruction-fetch view of every region start / end
            let p = &m.core.memory as *const gbint::mem::MemoryAreas;
            let mut acc = 0u32;
            for a in [0x0000usize, 0x3fff, 0x4000, 0x7fff, 0xc000, 0xcfff, 0xd000, 0xdfff, 0xff80, 0xfffe] {
                rec.progress(a as u64);
                let s = gbint::mem::get_executable_memory_slice(a, p);
                acc = acc.wrapping_add(s.len() as u32 + s.first().cloned().unwrap_or(0) as u32 + s.last().cloned().unwrap_or(0) as u32);
            }
            acc
        }
    });
    r.map(|_| ())
}

fn run_config(rec: &mut Rec, cfg: (u8, u8, u8), states: &[Vec<(u16, u8)>], phases: &[&str]) {
    let mut m = make(cfg.0, cfg.1, cfg.2);
    let banks = rom_banks_for_code(cfg.1).unwrap();
    let ram = ram_bytes_for_code(cfg.2).unwrap();
    for state in states {
        for phase in phases {
            m.reset_devices();
            for (a, v) in state {
                m.write(*a, *v);
            }
            rec.eval(if *phase == "dma" { 256 } else if *phase == "fetch-view" { 10 } else { 65536 });
            rec.class(phase, 1);
            if ram == 0 {
                rec.class("no-ram", 1);
            }
            if ram == 2048 {
                rec.class("ram-2k", 1);
            }
            if state.iter().any(|(a, v)| *a == 0x2000 && (*v as usize & 0x7f) >= banks) {
                rec.class("bank-beyond-size", 1);
            }
            rec.nontrivial(fnv(format!("{:?}{:?}{}", cfg, state, phase).as_bytes()));
            if let Err(msg) = sweep(rec, &mut m, cfg, state, phase) {
                rec.violation(
                    &format!("panic-{}", phase),
                    case(cfg, state, phase),
                    format!("bus access panicked ({} phase, cartridge type {:#04x}, ROM code {:#04x}, RAM code {}): {}", phase, cfg.0, cfg.1, cfg.2, msg),
                );
                m = make(cfg.0, cfg.1, cfg.2);
            }
        }
    }
}

fn run(rec: &mut Rec) {
    use proptest::prelude::*;
    let quick = rec.ctx.tier == Tier::Quick;
    let states = bank_states(quick);
    let mut configs = Vec::new();
    for t in TYPES {
        for rc in ROM_CODES {
            for rac in RAM_CODES {
                configs.push((t, rc, rac));
            }
        }
    }
    let phases = ["read", "word-read", "write", "word-write", "push-word", "dma", "fetch-view"];
    for (idx, cfg) in configs.iter().enumerate() {
        if !rec.ctx.mine(idx) || rec.too_many() {
            continue;
        }
        // quick: all phases on a rotating third of the states per configuration (every state is
        // covered by some configuration of each type); thorough: the full product
        let sel: Vec<Vec<(u16, u8)>> = if quick {
            states.iter().enumerate().filter(|(k, _)| *k == 0 || (k + idx) % 3 == 0).map(|(_, s)| s.clone()).collect()
        } else {
            states.clone()
        };
        run_config(rec, *cfg, &sel, &phases);
        rec.sample(|| case(*cfg, &sel[sel.len() / 2], "read"));
    }
    // device-register histories
    {
        let cases = rec.ctx.tier.pick(150u32, 20_000);
        let strat = prop::collection::vec((any::<u8>(), any::<u8>(), any::<u8>(), any::<u16>()), 1..60);
        fn ijson(v: &Vec<(u8, u8, u8, u16)>) -> Value {
            json!({"kind": "io-history", "ops": v})
        }
        let cell = std::cell::RefCell::new(make(0x03, 0x02, 0x03));
        run_generated(rec, "iohist", cases, strat, ijson, |ops, rec, counting| {
            let mut m = cell.borrow_mut();
            m.reset_devices();
            if counting {
                rec.current(&ijson(ops).to_string());
                rec.eval(ops.len() as u64 + 24 * 12);
                rec.class("io-register-history", 1);
                rec.nontrivial(fnv(format!("io{:?}", ops).as_bytes()));
            }
            match io_history(&mut m, ops, rec) {
                Ok(()) => Ok(()),
                Err(msg) => {
                    *m = make(0x03, 0x02, 0x03);
                    Err(Fail::new("panic-io-history", format!("a history of device-register stores and time panicked: {}", msg)))
                }
            }
        });
    }
    // files shorter and longer than they declare, through the loader
    file_length_layer(rec);
    // generated write histories over the whole address space, then read sweeps
    let cases = rec.ctx.tier.pick(6u32, 200);
    let strat = (0usize..504, prop::collection::vec((any::<u16>(), any::<u8>(), any::<bool>()), 1..200));
    fn hjson(v: &(usize, Vec<(u16, u8, bool)>)) -> Value {
        json!({"kind": "history", "config_index": v.0, "writes": v.1})
    }
    run_generated(rec, "hist", cases, strat, hjson, |(ci, hist), rec, counting| {
        let cfg = configs[*ci];
        rec.current(&hjson(&(*ci, hist.clone())).to_string());
        let mut m = make(cfg.0, cfg.1, cfg.2);
        if counting {
            rec.eval(hist.len() as u64 + 2 * 65536);
            rec.class("generated-history", 1);
            rec.nontrivial(fnv(format!("{:?}{:?}", cfg, hist).as_bytes()));
        }
        let r = guarded(|| {
            for (k, (a, v, word)) in hist.iter().enumerate() {
                rec.progress(k as u64);
                // bias addresses towards the bank registers
                let a = if k % 3 == 0 { *a & 0x7fff } else { *a };
                if *word {
                    m.write_word(a, (*v as u16) << 8 | *v as u16);
                } else {
                    m.write(a, *v);
                }
                m.read(0x4000);
                m.read(0x7fff);
                m.read(0xa000);
                m.read_word(0xbfff);
            }
            for a in 0..=0xffffu32 {
                m.read_word(a as u16);
            }
        });
        match r {
            Ok(()) => Ok(()),
            Err(msg) => Err(Fail::new("panic-history", format!("bus access panicked after a write history on cartridge {:?}: {}", cfg, msg))),
        }
    });
}

fn replay(case: &Value, rec: &mut Rec) {
    if case.get("kind").and_then(|k| k.as_str()) == Some("fuzz-bytes") {
        let data = unhex(case.get("bytes").and_then(|b| b.as_str()).unwrap_or(""));
        rec.eval(1);
        rec.current(&case.to_string());
        if let Err(msg) = fuzz_bus(&data) {
            rec.violation("panic-script", case.clone(), msg);
        }
        return;
    }
    let mut configs = Vec::new();
    for t in TYPES {
        for rc in ROM_CODES {
            for rac in RAM_CODES {
                configs.push((t, rc, rac));
            }
        }
    }
    if case.get("kind").and_then(|k| k.as_str()) == Some("io-history") {
        let ops: Vec<(u8, u8, u8, u16)> = case.get("ops").and_then(|w| serde_json::from_value(w.clone()).ok()).unwrap_or_default();
        let mut m = make(0x03, 0x02, 0x03);
        rec.current(&case.to_string());
        rec.eval(1);
        if let Err(msg) = io_history(&mut m, &ops, rec) {
            rec.violation("panic-io-history", case.clone(), msg);
        }
        return;
    }
    if case.get("kind").and_then(|k| k.as_str()) == Some("file-length") {
        let g = |k: &str| case.get(k).and_then(|v| v.as_u64()).unwrap_or(0);
        let (t, rc, rac) = (g("type") as u8, g("rom_code") as u8, g("ram_code") as u8);
        if !TYPES.contains(&t) || rom_banks_for_code(rc).is_none() || ram_bytes_for_code(rac).is_none() {
            rec.inconclusive("replay case names an unsupported configuration");
            return;
        }
        file_length_case(rec, t, rc, rac, g("length") as usize);
        return;
    }
    if case.get("kind").and_then(|k| k.as_str()) == Some("history") {
        let ci = case.get("config_index").and_then(|v| v.as_u64()).unwrap_or(0) as usize % configs.len();
        let hist: Vec<(u16, u8, bool)> = case.get("writes").and_then(|w| serde_json::from_value(w.clone()).ok()).unwrap_or_default();
        let cfg = configs[ci];
        let mut m = make(cfg.0, cfg.1, cfg.2);
        rec.current(&case.to_string());
        rec.eval(1);
        let r = guarded(|| {
            for (k, (a, v, word)) in hist.iter().enumerate() {
                let a = if k % 3 == 0 { *a & 0x7fff } else { *a };
                if *word {
                    m.write_word(a, (*v as u16) << 8 | *v as u16);
                } else {
                    m.write(a, *v);
                }
                m.read(0x4000);
                m.read(0x7fff);
                m.read(0xa000);
                m.read_word(0xbfff);
            }
            for a in 0..=0xffffu32 {
                m.read_word(a as u16);
            }
        });
        if let Err(msg) = r {
            rec.violation("panic-history", case.clone(), msg);
        }
        return;
    }
    let t = case.get("type").and_then(|v| v.as_u64()).unwrap_or(1) as u8;
    let rc = case.get("rom_code").and_then(|v| v.as_u64()).unwrap_or(2) as u8;
    let rac = case.get("ram_code").and_then(|v| v.as_u64()).unwrap_or(3) as u8;
    if !TYPES.contains(&t) || rom_banks_for_code(rc).is_none() || ram_bytes_for_code(rac).is_none() {
        rec.inconclusive("replay case names an unsupported configuration");
        return;
    }
    let state: Vec<(u16, u8)> = case.get("state").and_then(|w| serde_json::from_value(w.clone()).ok()).unwrap_or_default();
    let phase = case.get("phase").and_then(|p| p.as_str()).unwrap_or("read").to_string();
    let phases: Vec<&str> = vec![phase.as_str()];
    run_config(rec, (t, rc, rac), &[state], &phases);
}

/// fuzz entry: configuration selector + an access script (kind, address, value)
pub fn fuzz_bus(data: &[u8]) -> Result<(), String> {
    if data.len() < 4 {
        return Ok(());
    }
    let t = TYPES[data[0] as usize % TYPES.len()];
    let rc = [0u8, 1, 2, 3, 4, 0x52][data[1] as usize % 6];
    let rac = RAM_CODES[data[2] as usize % RAM_CODES.len()];
    let mut m = make(t, rc, rac);
    guarded(|| {
        for ch in data[3..].chunks_exact(4) {
            let addr = u16::from_le_bytes([ch[1], ch[2]]);
            match ch[0] % 6 {
                0 => {
                    m.read(addr);
                }
                1 => m.write(addr, ch[3]),
                2 => {
                    m.read_word(addr);
                }
                3 => m.write_word(addr, (ch[3] as u16) << 8 | ch[3] as u16),
                4 => m.write(addr & 0x7fff, ch[3]),
                _ => m.run_clocks(4 * (1 + ch[3] as usize)),
            }
        }
    })
    .map_err(|e| format!("bus access panicked on cartridge type {:#04x}, ROM code {:#04x}, RAM code {}: {}", t, rc, rac, e))
}
