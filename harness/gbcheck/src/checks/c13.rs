//! C13 — DIV/TIMA follow the divider and are independent of catch-up batching.

use super::common::*;
use crate::engine::*;
use crate::mach::{i, Emu};
use models::timer::Timer as RefTimer;
use proptest::prelude::*;
use serde_json::{json, Value};

pub static DEF: CheckDef = CheckDef {
    id: "C13",
    run,
    replay,
    rule: "proptest histories of up to 14 operations over {write DIV, write TIMA(v), write TMA(v), write TAC(v) (any byte), advance(n)} with n from 1 clock to 2000000 clocks (biased to the four periods +-2 and to multiples of 65536 up to 24 x 65536), executed (1) on the Timer device directly (any n) and (2) through the bus (0xFF04-0xFF07, MemoryAreas::run_clock_cycles with multiples of 4, IF bit 2). After every operation DIV, TIMA, TMA, TAC (low 3 bits) and whether the timer interrupt was requested by that operation are compared with the per-clock reference timer (models::timer). Metamorphic: every advance(n) is also executed split at generated cut points on a second instance; observations after every operation must be identical to the unsplit run. Plus an exhaustive sweep: all 8 TAC values x every divider phase 0..2047 x TAC rewrite to every other value (the glitch relation), and all 8 TAC values x advance(n) for n in 1..=2100 from phase 0. Non-trivial = history with an overflow, a TAC-write edge, a disabled stretch or a split advance containing an increment; distinct by hash of the history. Program layer (the glue between the CPU loop and the device): generated structured programs (C04's generator with the device fragments weighted up: TAC/TMA/TIMA writes, DIV reads, EI;HALT and STOP with a timer wake-up) run on a whole core in three stepping modes (interpreter instruction-stepped, interpreter block-stepped, jit block-stepped); the reference machine says which bus writes each step made, how many clocks it is worth and which request was acknowledged, and the independent model fed with exactly that must agree with DIV (and the 16-bit divider), TIMA, TMA, TAC and IF bit 2 after every step. A DIV write while the selected bit is high leaves TIMA one increment open, as at device level.",
    assumptions: &[
        "models::timer (divider + falling-edge detector, immediate TMA reload on overflow as the property states it)",
        "a DIV write while the selected divider bit is high: the property does not name that edge; both TIMA outcomes are accepted (set-valued model)",
        "TAC read-back is compared on its low 3 bits only",
    ],
    required_classes: &["overflow", "tac-write-edge", "disabled-stretch", "split-advance-with-increment", "level-device", "level-bus", "exhaustive-tac-rewrite", "div-write-while-high", "program-timer-overflow", "program-div-write", "program-halted-or-stopped-steps", "program-stopped-steps", "program-mode-block-jit", "program-tac-write-edge"],
    exhaustive: false,
};

#[derive(Clone, Debug, serde::Serialize, serde::Deserialize)]
enum Op {
    Div,
    Tima(u8),
    Tma(u8),
    Tac(u8),
    /// advance n clocks; cuts = split points as fractions of n (per 65536)
    Adv(u32, Vec<u16>),
}

#[derive(Clone, Debug, serde::Serialize, serde::Deserialize)]
struct Case {
    level: u8,
    ops: Vec<Op>,
}

fn case_json(c: &Case) -> Value {
    json!({"kind": "timer", "case": c})
}

trait Dut {
    fn div(&mut self);
    fn tima(&mut self, v: u8);
    fn tma(&mut self, v: u8);
    /// returns whether an interrupt was requested by the write
    fn tac(&mut self, v: u8) -> bool;
    fn adv(&mut self, n: u32) -> bool;
    /// (DIV, TIMA, TMA, TAC & 7)
    fn obs(&mut self) -> (u8, u8, u8, u8);
}

struct Dev {
    t: gbint::devices::timer::Timer,
}
impl Dut for Dev {
    fn div(&mut self) {
        self.t.reset_divider()
    }
    fn tima(&mut self, v: u8) {
        self.t.set_counter(v)
    }
    fn tma(&mut self, v: u8) {
        self.t.set_modulo(v)
    }
    fn tac(&mut self, v: u8) -> bool {
        self.t.set_timer_control(v).as_u8() & 4 != 0
    }
    fn adv(&mut self, n: u32) -> bool {
        self.t.run_cycles(gbint::timing::ClockCycles(n as usize)).as_u8() & 4 != 0
    }
    fn obs(&mut self) -> (u8, u8, u8, u8) {
        (self.t.get_divider(), self.t.get_counter(), self.t.get_modulo(), self.t.get_timer_control() & 7)
    }
}

struct BusDut {
    m: i::M,
}
impl BusDut {
    fn take_irq(&mut self) -> bool {
        let v = self.m.read(0xff0f) & 0x1f;
        self.m.write(0xff0f, v & !4);
        v & 4 != 0
    }
}
impl Dut for BusDut {
    fn div(&mut self) {
        self.m.write(0xff04, 0x5a)
    }
    fn tima(&mut self, v: u8) {
        self.m.write(0xff05, v)
    }
    fn tma(&mut self, v: u8) {
        self.m.write(0xff06, v)
    }
    fn tac(&mut self, v: u8) -> bool {
        self.m.write(0xff07, v);
        self.take_irq()
    }
    fn adv(&mut self, n: u32) -> bool {
        self.m.run_clocks(n as usize);
        self.take_irq()
    }
    fn obs(&mut self) -> (u8, u8, u8, u8) {
        (self.m.read(0xff04), self.m.read(0xff05), self.m.read(0xff06), self.m.read(0xff07) & 7)
    }
}

fn cut_sizes(n: u32, cuts: &[u16], quantum: u32) -> Vec<u32> {
    let mut pts: Vec<u32> = cuts.iter().map(|c| ((n as u64 * *c as u64) >> 16) as u32 / quantum * quantum).filter(|p| *p > 0 && *p < n).collect();
    pts.sort();
    pts.dedup();
    let mut out = Vec::new();
    let mut prev = 0;
    for p in pts {
        out.push(p - prev);
        prev = p;
    }
    out.push(n - prev);
    out
}

#[derive(Default)]
struct Stats {
    overflow: bool,
    tac_edge: bool,
    disabled: bool,
    split_inc: bool,
    div_high: bool,
}

/// run one history on two instances (whole / split advances) against the model
fn exec_on(whole: &mut dyn Dut, split: &mut dyn Dut, quantum: u32, ops: &[Op], st: &mut Stats) -> CaseResult {
    let mut cands: Vec<RefTimer> = vec![RefTimer::new()];
    for (k, op) in ops.iter().enumerate() {
        let mut irq_w = false;
        let mut irq_s = false;
        // expected per candidate: (state, irq)
        let mut next: Vec<(RefTimer, bool)> = Vec::new();
        match op {
            Op::Div => {
                whole.div();
                split.div();
                for c in &cands {
                    let mut a = *c;
                    let high = a.write_div();
                    next.push((a, false));
                    if high {
                        st.div_high = true;
                        let mut b = a;
                        let o = b.increment();
                        next.push((b, o));
                    }
                }
            }
            Op::Tima(v) => {
                whole.tima(*v);
                split.tima(*v);
                for c in &cands {
                    let mut a = *c;
                    a.tima = *v;
                    next.push((a, false));
                }
            }
            Op::Tma(v) => {
                whole.tma(*v);
                split.tma(*v);
                for c in &cands {
                    let mut a = *c;
                    a.tma = *v;
                    next.push((a, false));
                }
            }
            Op::Tac(v) => {
                irq_w = whole.tac(*v);
                irq_s = split.tac(*v);
                for c in &cands {
                    let mut a = *c;
                    let (edge, o) = a.write_tac(*v);
                    if edge {
                        st.tac_edge = true;
                    }
                    if o {
                        st.overflow = true;
                    }
                    next.push((a, o));
                }
            }
            Op::Adv(n, cuts) => {
                let n = (*n / quantum).max(1) * quantum;
                irq_w = whole.adv(n);
                let parts = cut_sizes(n, cuts, quantum);
                for p in &parts {
                    irq_s |= split.adv(*p);
                }
                for c in &cands {
                    let mut a = *c;
                    if a.tac & 4 == 0 {
                        st.disabled = true;
                    }
                    // closed form for long batches (models::timer proves it equal to the per-clock model)
                    let (incs, ovf) = if n > 4096 { a.advance_fast(n as u64) } else { a.advance(n as u64) };
                    if ovf > 0 {
                        st.overflow = true;
                    }
                    if incs > 0 && parts.len() > 1 {
                        st.split_inc = true;
                    }
                    next.push((a, ovf > 0));
                }
            }
        }
        let ow = whole.obs();
        let os = split.obs();
        if ow != os || irq_w != irq_s {
            return Err(Fail::new(
                "batching-dependence",
                format!(
                    "operation {} ({:?}): unsplit run gives DIV={:#04x} TIMA={:#04x} TMA={:#04x} TAC={} irq={}, the same time delivered in pieces gives DIV={:#04x} TIMA={:#04x} TMA={:#04x} TAC={} irq={}",
                    k, op, ow.0, ow.1, ow.2, ow.3, irq_w, os.0, os.1, os.2, os.3, irq_s
                ),
            ));
        }
        let matching: Vec<RefTimer> = next.iter().filter(|(m, irq)| (m.div_reg(), m.tima, m.tma, m.tac & 7) == ow && *irq == irq_w).map(|(m, _)| *m).collect();
        if matching.is_empty() {
            let (m, irq) = next[0];
            let what = if m.div_reg() != ow.0 {
                "div"
            } else if m.tima != ow.1 {
                match op {
                    Op::Tac(_) => "tima-tac-write",
                    Op::Adv(..) => "tima-advance",
                    Op::Div => "tima-div-write",
                    _ => "tima",
                }
            } else if irq != irq_w {
                "interrupt-request"
            } else {
                "register"
            };
            return Err(Fail::new(
                what,
                format!(
                    "operation {} ({:?}): DIV={:#04x} TIMA={:#04x} TMA={:#04x} TAC={} irq={}; reference DIV={:#04x} TIMA={:#04x} TMA={:#04x} TAC={} irq={} (divider phase {:#06x})",
                    k,
                    op,
                    ow.0,
                    ow.1,
                    ow.2,
                    ow.3,
                    irq_w,
                    m.div_reg(),
                    m.tima,
                    m.tma,
                    m.tac & 7,
                    irq,
                    m.div
                ),
            ));
        }
        cands = matching;
        cands.dedup();
        if cands.len() > 4 {
            cands.truncate(4);
        }
    }
    Ok(())
}

struct Machines {
    b1: BusDut,
    b2: BusDut,
}

fn exec(ms: &mut Machines, c: &Case, rec: &mut Rec, counting: bool) -> CaseResult {
    let mut st = Stats::default();
    let r = if c.level == 0 {
        let mut a = Dev { t: gbint::devices::timer::Timer::new() };
        let mut b = Dev { t: gbint::devices::timer::Timer::new() };
        guarded(|| exec_on(&mut a, &mut b, 1, &c.ops, &mut st))
    } else {
        ms.b1.m.reset_devices();
        ms.b2.m.reset_devices();
        let (b1, b2) = (&mut ms.b1, &mut ms.b2);
        guarded(|| exec_on(b1, b2, 4, &c.ops, &mut st))
    };
    if counting {
        rec.eval(1);
        rec.class(if c.level == 0 { "level-device" } else { "level-bus" }, 1);
        let mut nt = false;
        for (name, on) in [("overflow", st.overflow), ("tac-write-edge", st.tac_edge), ("disabled-stretch", st.disabled), ("split-advance-with-increment", st.split_inc)] {
            if on {
                rec.class(name, 1);
                nt = true;
            }
        }
        if st.div_high {
            rec.class("div-write-while-high", 1);
        }
        if nt {
            rec.nontrivial(fnv(format!("{:?}", c).as_bytes()));
        }
    }
    match r {
        Ok(v) => v,
        Err(msg) => Err(Fail::new("panic", format!("the timer panicked: {}", msg))),
    }
}

fn op_strategy() -> impl Strategy<Value = Op> {
    let n = prop_oneof![
        3 => 1u32..24,
        3 => prop::sample::select(vec![16u32, 64, 256, 1024, 4096, 65536, 131072]).prop_flat_map(|p| (p - 2)..=(p + 2)),
        3 => 1u32..2100,
        1 => 1u32..70000,
        1 => 1u32..200000,
        1 => 200_000u32..2_000_000,
        1 => (1u32..=24, 0u32..5).prop_map(|(k, d)| k * 65536 + d - 2),
    ];
    let cuts = prop::collection::vec(any::<u16>(), 0..5);
    prop_oneof![
        1 => Just(Op::Div),
        2 => prop_oneof![Just(0xffu8), Just(0xfe), any::<u8>()].prop_map(Op::Tima),
        1 => any::<u8>().prop_map(Op::Tma),
        3 => prop_oneof![0u8..8, any::<u8>()].prop_map(Op::Tac),
        6 => (n, cuts).prop_map(|(n, c)| Op::Adv(n, c)),
    ]
}

fn run(rec: &mut Rec) {
    let rom = std_rom();
    let mut ms = Machines { b1: BusDut { m: i::M::new(&rom) }, b2: BusDut { m: i::M::new(&rom) } };
    // exhaustive glitch relation and short advances (device level)
    {
        let mut n = 0u64;
        for tac0 in 0..8u8 {
            if !rec.ctx.mine(tac0 as usize) {
                continue;
            }
            for phase in 0..2048u32 {
                for tac1 in 0..8u8 {
                    let c = Case { level: 0, ops: vec![Op::Tac(tac0), Op::Adv(phase.max(1), vec![]), Op::Tima(0xff), Op::Tma(0x33), Op::Tac(tac1)] };
                    n += 1;
                    if let Err(f) = exec(&mut ms, &c, rec, n % 64 == 0) {
                        rec.violation(&f.sig, case_json(&c), f.detail);
                    }
                }
            }
            for adv in 1..=2100u32 {
                let c = Case { level: 0, ops: vec![Op::Tac(tac0), Op::Tima(0xfe), Op::Adv(adv, vec![0x5555, 0xc000])] };
                n += 1;
                if let Err(f) = exec(&mut ms, &c, rec, n % 64 == 0) {
                    rec.violation(&f.sig, case_json(&c), f.detail);
                }
            }
        }
        rec.eval(n - n / 64);
        rec.class("exhaustive-tac-rewrite", n);
        rec.nontrivial_direct(n - n / 64);
        rec.exhaustive_part("8 TAC values x 2048 divider phases x 8 rewritten TAC values; 8 TAC values x advance(1..=2100) split in three");
    }
    let cases = rec.ctx.tier.pick(6000u32, 100_000);
    for level in 0..2u8 {
        let strat = prop::collection::vec(op_strategy(), 1..14).prop_map(move |ops| Case { level, ops });
        let cell = std::cell::RefCell::new(&mut ms);
        run_generated(rec, &format!("hist{}", level), cases, strat, case_json, |c, rec, counting| {
            if counting {
                rec.current(&case_json(c).to_string());
            }
            exec(&mut cell.borrow_mut(), c, rec, counting)
        });
    }
    rec.sample(|| case_json(&Case { level: 1, ops: vec![Op::Tac(5), Op::Tima(0xff), Op::Adv(16, vec![0x8000])] }));
    // program layer: the timer as a whole core drives it
    crate::sysobs::program_layer(rec, "program-timer", &[crate::sysobs::Dev::Timer], crate::prog::Focus { timer: 3, irq: 1, ..Default::default() }, rec.ctx.tier.pick(250u32, 6000), rec.ctx.tier.pick(2500u32, 10000), 1, program_nontrivial);
}

fn replay(case: &Value, rec: &mut Rec) {
    if crate::sysobs::replay_program(case, rec, &[crate::sysobs::Dev::Timer]) {
        return;
    }
    let c: Case = match case.get("case").cloned().and_then(|v| serde_json::from_value(v).ok()) {
        Some(c) => c,
        None => {
            rec.inconclusive("replay case is not a C13 history");
            return;
        }
    };
    let rom = std_rom();
    let mut ms = Machines { b1: BusDut { m: i::M::new(&rom) }, b2: BusDut { m: i::M::new(&rom) } };
    if let Err(f) = exec(&mut ms, &c, rec, true) {
        rec.violation(&f.sig, case_json(&c), f.detail);
    }
}

fn program_nontrivial(o: &crate::sysobs::RunOutcome) -> bool {
    o.stats.timer_overflows > 0 && (o.stats.suspended_steps > 0 || o.stats.div_writes > 0 || o.stats.tac_edges > 0)
}
