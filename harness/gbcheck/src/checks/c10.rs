//! C10 — every bus address decodes to the documented Game Boy memory region.

use super::common::*;
use crate::engine::*;
use crate::mach::{i, j, Emu};
use crate::rom::{ram_bytes_for_code, rom_banks_for_code, RomImage};
use models::bus::{io_kind, region_name, region_of, Bus, IoKind, Region};
use models::mbc::{kind_for_type, Kind};
use proptest::prelude::*;
use serde_json::{json, Value};

pub static DEF: CheckDef = CheckDef {
    id: "C10",
    run,
    replay,
    rule: "(a) write-target x probe matrix: every one of the 65536 addresses W is written (value different from what was read there before) on each of six cartridges (MBC1+RAM 8 and 128 banks, MBC1 8 KiB RAM, MBC3+RAM 32 banks, MBC3+RAM 72 banks, ROM-only), in chunks of 64 writes spread over all regions, and after every single write all 65536 addresses are read back and compared with the reference decode model (models::bus): storage bytes hold the last value written to them and nothing else changed, ROM reads equal the image under the bank mapping of the controller model, echo / 0xFEA0-0xFEFF / unassigned I/O keep reading their constant, readable I/O registers return their defined writable bits. (b) proptest histories of up to 48 writes biased to region boundaries, bank registers and I/O registers, same full read-back after every write, shrunk on failure. (c) fetch view: get_executable_memory_slice (both builds) and the translator's get_executable_memory_segment against data reads for every start address in ROM (several mapped banks), work RAM and high RAM. Non-trivial = a write whose value differs from the previous content followed by a complete 65536-address probe; distinct by (cartridge, W) in (a) and by hash of the history in (b).",
    assumptions: &[
        "models::bus + models::mbc (written from the memory-map and controller documentation); no clock cycles are delivered during a history, so device time stands still (every other history first switches the LCD on and runs to an arbitrary point of a frame)",
        "not asserted, as the property says: 0xFF01/0xFF02 reads, P1 bits 0-3 and 6-7, STAT bits 0-2 and 7, IF bits 5-7, TAC bits 3-7; what a write to LY or 0xFF46 makes that address read; initial contents and power-on register values (captured from the first observation)",
        "cartridge RAM is kept enabled (values written to 0x0000-0x1FFF get low nibble 0xA) and MBC3 RAM-bank selections stay within 0-3 (no RTC register), by construction of the generators",
        "a write to STAT or LYC may raise the STAT request bit in IF (not prescribed either way by C10)",
        "on the 72-bank cartridge a selection beyond the last bank leaves 0x4000-0x7FFF unasserted (undocumented)",
    ],
    required_classes: &["w-rom0", "w-romN", "w-vram", "w-cart-ram", "w-wram", "w-echo", "w-oam", "w-unusable", "w-io", "w-hram", "w-ie", "fetch-rom", "fetch-wram", "fetch-hram", "generated-history", "bank-switch-then-probe"],
    exhaustive: true,
};

const CONFIGS: [(u8, u8, u8); 6] = [(0x03, 0x02, 0x03), (0x13, 0x04, 0x03), (0x00, 0x00, 0x00), (0x03, 0x06, 0x03), (0x02, 0x01, 0x02), (0x13, 0x52, 0x03)];

fn make_rom(cfg: (u8, u8, u8)) -> RomImage {
    let mut rom = RomImage::new(cfg.0, cfg.1, cfg.2, 0);
    let mut x = 0x1234_5678u64 ^ (cfg.0 as u64) << 32 ^ (cfg.1 as u64) << 40;
    let n = rom.bytes.len();
    for (k, chunk) in rom.bytes.chunks_mut(8).enumerate() {
        if k * 8 >= 0x100 && k * 8 < 0x150 {
            continue;
        }
        x = splitmix(x);
        let b = x.to_le_bytes();
        let l = chunk.len();
        chunk.copy_from_slice(&b[..l]);
    }
    let _ = n;
    rom.fix_checksum();
    rom
}

struct World {
    cfg: (u8, u8, u8),
    m: i::M,
    model: Bus,
    obs: Vec<u8>,
    rom_hash: u64,
}

fn sweep(m: &mut i::M, obs: &mut [u8]) {
    for a in 0..=0xffffu32 {
        obs[a as usize] = m.read(a as u16);
    }
}

fn new_world(cfg: (u8, u8, u8)) -> World {
    let rom = make_rom(cfg);
    let m = i::M::new(&rom);
    let kind = kind_for_type(cfg.0).unwrap();
    let ram = ram_bytes_for_code(cfg.2).unwrap();
    let rom_hash = hash_bytes(7, &rom.bytes);
    let model = Bus::new(kind, rom.bytes, ram);
    World { cfg, m, model, obs: vec![0; 0x10000], rom_hash }
}

/// bring machine and model to a fresh, seeded initial state
fn reset_world(w: &mut World, seed: u64) -> Result<(), (String, String)> {
    w.m.reset_devices();
    w.m.fill_ram(seed);
    // every other history starts with the LCD on and somewhere inside a frame (any line,
    // any mode) and the divider away from zero; time then stands still as before
    if seed & 1 == 1 {
        w.m.write(0xff40, 0x91 | (seed >> 8) as u8);
        w.m.run_clocks(4 * (splitmix(seed) % 17556) as usize);
    }
    let kind = kind_for_type(w.cfg.0).unwrap();
    let ram = ram_bytes_for_code(w.cfg.2).unwrap();
    let rom = w.model.rom_image().to_vec();
    w.model = Bus::new(kind, rom, ram);
    sweep(&mut w.m, &mut w.obs);
    let dump = w.m.core.memory.cart_ram.to_vec();
    match w.model.capture(&w.obs, &dump) {
        Ok(()) => Ok(()),
        Err(mm) => Err((
            format!("initial-{}", region_name(region_of(mm.addr))),
            format!("before any write: address {:#06x} reads {:#04x}, expected {:#04x} under mask {:#04x} ({})", mm.addr, mm.got, mm.want, mm.mask, mm.why),
        )),
    }
}

/// constrain a generated (address, value) pair to the input domain (see assumptions)
fn legal(cfg: (u8, u8, u8), addr: u16, value: u8) -> u8 {
    if addr < 0x2000 {
        (value & 0xf0) | 0x0a
    } else if (0x4000..0x6000).contains(&addr) && kind_for_type(cfg.0) == Some(Kind::Mbc3) {
        value & 3
    } else {
        value
    }
}

fn apply_write(w: &mut World, addr: u16, value: u8) -> Result<(), (String, String)> {
    w.m.write(addr, value);
    let mref: *mut i::M = &mut w.m;
    let mut probe = |a: u16| unsafe { (*mref).read(a) };
    let _ = w.model.write(addr, value, &mut probe);
    let mut obs = std::mem::take(&mut w.obs);
    sweep(&mut w.m, &mut obs);
    w.obs = obs;
    if let Some(mm) = w.model.check(&w.obs) {
        let wr = region_name(region_of(addr));
        let pr = region_name(region_of(mm.addr));
        let sig = if mm.addr == addr { format!("readback-{}", wr) } else { format!("w-{}-changes-{}", wr, pr) };
        let what = if mm.addr == addr {
            format!("the byte {:#04x} written to {:#06x} ({}) reads back as {:#04x} (defined bits {:#04x}, expected {:#04x})", value, addr, wr, mm.got, mm.mask, mm.want)
        } else {
            format!(
                "after writing {:#04x} to {:#06x} ({}), address {:#06x} ({}) reads {:#04x}, expected {:#04x} under mask {:#04x}: {}",
                value, addr, wr, mm.addr, pr, mm.got, mm.want, mm.mask, mm.why
            )
        };
        return Err((sig, what));
    }
    Ok(())
}

fn check_rom_intact(w: &mut World) -> Result<(), (String, String)> {
    let h = hash_bytes(7, w.m.rom());
    if h != w.rom_hash {
        return Err(("rom-buffer-changed".into(), "the cartridge ROM buffer changed through bus writes".into()));
    }
    Ok(())
}

fn case_json(ci: usize, seed: u64, writes: &[(u16, u8)]) -> Value {
    json!({"kind": "writes", "config": ci, "cart": {"type": CONFIGS[ci].0, "rom_code": CONFIGS[ci].1, "ram_code": CONFIGS[ci].2}, "fill_seed": seed, "writes": writes})
}

fn run_history(w: &mut World, seed: u64, writes: &[(u16, u8)]) -> Result<(), (String, String)> {
    reset_world(w, seed)?;
    for (a, v) in writes {
        apply_write(w, *a, *v)?;
    }
    check_rom_intact(w)
}

fn addr_strategy() -> impl Strategy<Value = u16> {
    let edges: Vec<u16> = vec![
        0x0000, 0x1fff, 0x2000, 0x3fff, 0x4000, 0x5fff, 0x6000, 0x7fff, 0x8000, 0x9fff, 0xa000, 0xbfff, 0xc000, 0xcfff, 0xd000, 0xdfff, 0xe000, 0xfdff, 0xfe00, 0xfe9f,
        0xfea0, 0xfeff, 0xff00, 0xff7f, 0xff80, 0xfffe, 0xffff, 0xffc6, 0xff46,
    ];
    let io: Vec<u16> = vec![0xff00, 0xff04, 0xff05, 0xff06, 0xff07, 0xff0f, 0xff40, 0xff41, 0xff42, 0xff43, 0xff44, 0xff45, 0xff47, 0xff48, 0xff49, 0xff4a, 0xff4b, 0xff03, 0xff10, 0xff4c, 0xff7f];
    prop_oneof![
        3 => prop::sample::select(edges),
        2 => prop::sample::select(io),
        2 => 0u16..0x8000,
        1 => 0xa000u16..0xc000,
        1 => 0xff00u16..=0xffff,
        3 => any::<u16>(),
    ]
}

fn fetch_view(rec: &mut Rec, ci: usize) {
    let cfg = CONFIGS[ci];
    let rom = make_rom(cfg);
    let banks = rom_banks_for_code(cfg.1).unwrap();
    let mut mi = i::M::new(&rom);
    let mut mj = j::M::new(&rom);
    mi.fill_ram(99);
    mj.fill_ram(99);
    let bank_sel: Vec<u8> = vec![1, 0, 2, (banks - 1).min(0x7f) as u8, 0x21, 0x1f];
    for (bi, sel) in bank_sel.iter().enumerate() {
        mi.write(0x2000, *sel);
        mj.write(0x2000, *sel);
        if bi == 4 {
            mi.write(0x4000, 1);
            mj.write(0x4000, 1);
        }
        let regions: [(usize, usize, &str); 4] = [(0x0000, 0x8000, "fetch-rom"), (0xc000, 0xe000, "fetch-wram"), (0xff80, 0xffff, "fetch-hram"), (0, 0, "")];
        for (lo, hi, class) in regions {
            if lo == hi || (bi > 0 && lo >= 0x8000) {
                continue;
            }
            for start in lo..hi {
                let case = json!({"kind": "fetch", "config": ci, "bank_select": sel, "upper": if bi == 4 { 1 } else { 0 }, "start": start});
                if start % 256 == 0 {
                    rec.current(&case.to_string());
                }
                rec.eval(1);
                rec.class(class, 1);
                let pi = &mi.core.memory as *const gbint::mem::MemoryAreas;
                let pj = &mj.core.memory as *const gbjit::mem::MemoryAreas;
                let si = guarded(|| gbint::mem::get_executable_memory_slice(start, pi));
                let sj = guarded(|| gbjit::mem::get_executable_memory_slice(start, pj));
                let sc = if start < 0x8000 { Some(guarded(|| { let s: &'static [u8] = unsafe { std::mem::transmute(mj.core.cache.get_executable_memory_segment(start, pj)) }; s })) } else { None };
                let mut views: Vec<(&str, Result<&[u8], String>)> = vec![("interpreter fetch (jit off)", si), ("interpreter fetch (jit on)", sj)];
                if let Some(s) = sc {
                    views.push(("translator fetch", s));
                }
                for (name, v) in views {
                    let bytes = match v {
                        Ok(b) => b,
                        Err(e) => {
                            rec.violation("fetch-panic", case.clone(), format!("{} at {:#06x} panicked: {}", name, start, e));
                            continue;
                        }
                    };
                    if bytes.is_empty() {
                        rec.violation("fetch-empty", case.clone(), format!("{} at {:#06x} is empty", name, start));
                        continue;
                    }
                    // complete comparison for sparse starts, head and tail for all
                    let full = start % 251 == 0;
                    let n = bytes.len();
                    let idxs: Vec<usize> = if full { (0..n).collect() } else { vec![0, 1.min(n - 1), 2.min(n - 1), n - 1] };
                    for k in idxs {
                        let a = start + k;
                        if a > 0xffff {
                            rec.violation("fetch-too-long", case.clone(), format!("{} at {:#06x} extends past the address space", name, start));
                            break;
                        }
                        let want = mi.read(a as u16);
                        if bytes[k] != want {
                            rec.violation(
                                &format!("fetch-differs-{}", class),
                                case.clone(),
                                format!("{}: byte {} of the view starting at {:#06x} is {:#04x} but a data read of {:#06x} gives {:#04x}", name, k, start, bytes[k], a, want),
                            );
                            break;
                        }
                    }
                }
            }
            rec.nontrivial_direct(1);
        }
    }
}

fn run(rec: &mut Rec) {
    let thorough = rec.ctx.tier == Tier::Thorough;
    // (a) write-target x probe matrix
    let nconf = if thorough { CONFIGS.len() } else { 3 };
    let rounds: u64 = if thorough { 3 } else { 1 };
    let mut item = 0usize;
    for ci in 0..CONFIGS.len() {
        let quick_sparse = !thorough && ci >= nconf;
        let mut w: Option<World> = None;
        for round in 0..rounds {
            for chunk in 0..1024usize {
                item += 1;
                if !rec.ctx.mine(item) || rec.too_many() {
                    continue;
                }
                // quick: the two extra cartridges get every 8th chunk only
                if quick_sparse && chunk % 8 != (ci % 8) {
                    continue;
                }
                let w = w.get_or_insert_with(|| new_world(CONFIGS[ci]));
                let seed = (ci as u64) << 32 | (round << 16) | chunk as u64;
                if let Err((sig, d)) = reset_world(w, seed) {
                    rec.violation(&sig, case_json(ci, seed, &[]), d);
                    break;
                }
                let mut writes: Vec<(u16, u8)> = Vec::with_capacity(64);
                for k in 0..64usize {
                    let addr = (chunk + k * 1024) as u16;
                    let h = splitmix(seed ^ (addr as u64) << 20 ^ rec.ctx.seed.wrapping_mul(0x9e37)) as u8;
                    let prev = w.obs[addr as usize];
                    let mut v = legal(CONFIGS[ci], addr, prev ^ (h | 1));
                    if v == prev {
                        v = legal(CONFIGS[ci], addr, prev ^ 0x50);
                    }
                    writes.push((addr, v));
                    rec.current(&case_json(ci, seed, &writes).to_string());
                    rec.eval(1);
                    rec.class(&format!("w-{}", region_name(region_of(addr))), 1);
                    rec.nontrivial_direct(1);
                    let before_bank = (w.model.rom_high_bank, w.model.ram_bank);
                    if let Err((sig, d)) = apply_write(w, addr, v) {
                        rec.violation(&sig, case_json(ci, seed, &writes), d);
                        break;
                    }
                    if before_bank != (w.model.rom_high_bank, w.model.ram_bank) {
                        rec.class("bank-switch-then-probe", 1);
                    }
                }
                if let Err((sig, d)) = check_rom_intact(w) {
                    rec.violation(&sig, case_json(ci, seed, &writes), d);
                }
                if chunk % 200 == 7 {
                    rec.sample(|| case_json(ci, seed, &writes[..4]));
                }
            }
        }
    }
    rec.exhaustive_part("write target W over all 65536 addresses x probe over all 65536 addresses, per cartridge (three cartridges completely in quick, six in thorough)");
    // (b) generated histories
    for ci in 0..CONFIGS.len() {
        if rec.too_many() {
            break;
        }
        let cases = rec.ctx.tier.pick(12u32, 400);
        let strat = (any::<u16>(), prop::collection::vec((addr_strategy(), any::<u8>()), 1..48));
        let world = std::cell::RefCell::new(new_world(CONFIGS[ci]));
        let cfg = CONFIGS[ci];
        let to_json: fn(&(u16, Vec<(u16, u8)>)) -> Value = |v| json!({"fill_seed": v.0, "raw_writes": v.1});
        run_generated(rec, &format!("hist{}", ci), cases, strat, to_json, |(seed, hist), rec, counting| {
            let writes: Vec<(u16, u8)> = hist.iter().map(|(a, v)| (*a, legal(cfg, *a, *v))).collect();
            let mut w = world.borrow_mut();
            if counting {
                rec.current(&case_json(ci, *seed as u64, &writes).to_string());
                rec.eval(writes.len() as u64);
                rec.class("generated-history", 1);
                let banky = writes.iter().any(|(a, _)| *a < 0x8000);
                let storey = writes.iter().any(|(a, _)| *a >= 0x8000);
                if banky && storey {
                    rec.nontrivial(fnv(format!("{}{:?}", ci, writes).as_bytes()));
                    rec.class("history-with-bank-and-storage-writes", 1);
                }
            }
            match run_history(&mut w, *seed as u64, &writes) {
                Ok(()) => Ok(()),
                Err((sig, d)) => Err(Fail::new(sig, d)),
            }
        });
        for v in rec.res.violations.iter_mut() {
            if let Some(raw) = v.case.get("raw_writes").cloned() {
                let hist: Vec<(u16, u8)> = serde_json::from_value(raw).unwrap_or_default();
                let writes: Vec<(u16, u8)> = hist.iter().map(|(a, x)| (*a, legal(cfg, *a, *x))).collect();
                let seed = v.case.get("fill_seed").and_then(|s| s.as_u64()).unwrap_or(0);
                v.case = case_json(ci, seed, &writes);
            }
        }
    }
    // (c) fetch view
    for ci in 0..CONFIGS.len() {
        if rec.ctx.mine(ci) {
            fetch_view(rec, ci);
        }
    }
    if rec.ctx.nshards < CONFIGS.len() && !rec.ctx.mine(0) {
        // nothing
    }
}

fn replay(case: &Value, rec: &mut Rec) {
    let ci = case.get("config").and_then(|v| v.as_u64()).unwrap_or(0) as usize % CONFIGS.len();
    rec.eval(1);
    if case.get("kind").and_then(|k| k.as_str()) == Some("fetch") {
        // replays the whole fetch-view pass of that cartridge
        fetch_view(rec, ci);
        return;
    }
    let seed = case.get("fill_seed").and_then(|v| v.as_u64()).unwrap_or(0);
    let writes: Vec<(u16, u8)> = case.get("writes").and_then(|w| serde_json::from_value(w.clone()).ok()).unwrap_or_default();
    let writes: Vec<(u16, u8)> = writes.iter().map(|(a, v)| (*a, legal(CONFIGS[ci], *a, *v))).collect();
    let mut w = new_world(CONFIGS[ci]);
    rec.current(&case.to_string());
    if let Err((sig, d)) = run_history(&mut w, seed, &writes) {
        rec.violation(&sig, case_json(ci, seed, &writes), d);
    }
}

#[allow(dead_code)]
fn _unused() {
    let _ = (io_kind(0), IoKind::Still, Region::Io);
    let _ = LEGAL_F;
}
