//! C05 — interpreter data semantics vs the SM83 reference model.

use super::common::*;
use crate::engine::*;
use crate::mach::{i, Emu, Regs, Snapshot};
use models::sm83::{self, Cpu};
use serde_json::{json, Value};

pub static DEF: CheckDef = CheckDef {
    id: "C05",
    run,
    replay,
    rule: "every data-moving/computing encoding is enumerated with all (A, operand, F) values for 8-bit forms, all 2^16 values for INC/DEC rr, POP/PUSH words and pointer registers, all 2^16 x 2^8 for ADD SP,e8 / LD HL,SP+e8, boundary lattice + random pairs (quick) or all 2^32 pairs (thorough) for ADD HL,rr; every instruction with operand bytes is also placed at 12 PCs (the last bytes of ROM bank 0, of the switchable bank and of the lower work RAM bank, so that the operand bytes come from the next region; the middle of the switchable bank; high RAM) under 9 ROM bank register values (none, 2, 5, 7, 0x1f, and 8 / 0x10 / 0x18 / 0 which wrap to banks 0 and 1 on the eight-bank cartridge), the other banks holding complemented bytes at the same offsets; each tuple is executed by interpreter::run_next_op and by the independent reference CPU and compared on all registers, flags and memory. A tuple is non-trivial when the instruction changes at least one register, flag or memory byte other than PC; tuples are distinct by construction (each visited once) so non-trivial ones are counted directly.",
    assumptions: &[
        "reference CPU models::sm83 (bit-field decoder, unit-tested against the published tables) is the oracle",
        "F low nibble is 0 and register fields are <= 0xFFFF on entry (guaranteed by every caller)",
        "pointer forms run on an MBC1+32KiB-RAM cartridge so that every address is backed",
    ],
    required_classes: &["alu-r", "alu-imm", "cb", "incdec16", "addhl", "spofs", "pop", "push", "ptr", "half-carry", "carry", "zero", "operand-across-region-end", "operand-in-switched-bank", "operand-in-bank-wrapped-to-0"],
    exhaustive: false,
};

pub const CODE_PC: u16 = 0x0150;
const CELL: u16 = 0xc123;

pub struct Pair {
    pub real: i::M,
    pub twin: i::M,
    pub snap: Snapshot,
    pub ram_bank: usize,
}

impl Pair {
    pub fn new() -> Pair {
        let rom = std_rom();
        let mut real = i::M::new(&rom);
        let mut twin = i::M::new(&rom);
        real.fill_ram(1);
        twin.fill_ram(1);
        // enable cartridge RAM the documented way (harmless if ignored)
        let pokes = vec![(0x0000u16, 0x0au8)];
        for (a, v) in &pokes {
            real.write(*a, *v);
            twin.write(*a, *v);
        }
        let snap = real.snapshot(pokes);
        let ram_bank = real.ram_bank();
        Pair { real, twin, snap, ram_bank }
    }
}

#[derive(Clone, Copy, PartialEq, Eq)]
pub enum Scope {
    Data,
    Control,
}

pub fn case_json(code: &[u8], regs: &Regs, cells: &[(u16, u8)]) -> Value {
    json!({
        "kind": "step",
        "code": hex(code),
        "regs": regs,
        "cells": cells.iter().map(|(a, v)| json!([a, v])).collect::<Vec<_>>(),
    })
}

/// General single-instruction comparison: the interpreter on `real`, the
/// reference CPU on `twin`'s bus. Both machines are returned to the snapshot.
pub struct TwinInfo {
    pub status: u8,
    pub end: bool,
    pub out: sm83::StepOut,
}

pub fn twin_check(p: &mut Pair, code: &[u8], regs: &Regs, cells: &[(u16, u8)], scope: Scope) -> Result<TwinInfo, Fail> {
    let pc = regs.pc as u16;
    // cells at 0x2000-0x3FFF are writes to the ROM bank register, made before the code is
    // put in place: the instruction bytes that lie in 0x4000-0x7FFF then go into the bank
    // those writes map there, and every other bank gets different bytes at the same offset
    let mut bank_reg: Option<u8> = None;
    for &(a, v) in cells {
        if (0x2000..0x4000).contains(&a) {
            p.real.write(a, v);
            p.twin.write(a, v);
            bank_reg = Some(v);
        }
    }
    match bank_reg {
        None => {
            place_code(&mut p.real, pc, code);
            place_code(&mut p.twin, pc, code);
        }
        Some(v) => {
            let mapped = mapped_bank_std(v);
            place_code_banked(&mut p.real, pc, code, mapped);
            place_code_banked(&mut p.twin, pc, code, mapped);
        }
    }
    for &(a, v) in cells {
        if (0x2000..0x4000).contains(&a) {
            continue;
        }
        p.real.write(a, v);
        p.twin.write(a, v);
    }
    p.real.set_regs(regs);
    p.real.trace_enable(true);
    p.real.trace_take();
    let r = {
        let real = &mut p.real;
        guarded(|| real.interp_op())
    };
    p.real.trace_enable(false);
    let trace = p.real.trace_take();
    let real_writes: Vec<(u16, u8)> = trace.iter().filter(|t| t.0 == 1).map(|t| (t.1, t.2)).collect();
    let mut cpu = cpu_from_regs(regs);
    let (out, model_writes) = {
        let mut bus = TwinBus { m: &mut p.twin, writes: Vec::new() };
        let out = sm83::step(&mut cpu, &mut bus);
        (out, bus.writes)
    };
    let want = regs_from_cpu(&cpu, regs.cycles + out.cycles);
    p.twin.set_regs(&want);
    let mut result: Result<TwinInfo, Fail> = Ok(TwinInfo { status: 0, end: false, out });
    match r {
        Err(msg) => {
            result = Err(Fail::new(
                format!("interp-panic-{}", sig_of(code)),
                format!("interpreter panicked on {} ({}): {}", enc_name(code), fmt_regs(regs), msg),
            ));
        }
        Ok(None) => {
            result = Err(Fail::new(format!("no-exec-{}", sig_of(code)), format!("run_next_op refused to execute at PC={:#06x}", pc)));
        }
        Ok(Some((status, end))) => {
            result = Ok(TwinInfo { status, end, out });
            let got = p.real.regs();
            let d = match scope {
                Scope::Data => diff_regs(&got, &want, false, false),
                Scope::Control => diff_regs(&got, &want, true, true),
            };
            if let Some(d) = d {
                result = Err(Fail::new(
                    format!("{}-{}", if scope == Scope::Data { "data" } else { "ctl" }, sig_of(code)),
                    format!("{} from {}: {}", enc_name(code), fmt_regs(regs), d),
                ));
            } else if real_writes != model_writes {
                result = Err(Fail::new(
                    format!("writes-{}", sig_of(code)),
                    format!(
                        "{} from {}: bus writes {:x?}, expected {:x?}",
                        enc_name(code),
                        fmt_regs(regs),
                        real_writes,
                        model_writes
                    ),
                ));
            } else if let Some(d) = crate::mach::diff_state(&p.real, &p.twin, &["pc", "pending_cycles", "af", "bc", "de", "hl", "sp"]) {
                result = Err(Fail::new(
                    format!("mem-{}", sig_of(code)),
                    format!("{} from {}: state after differs: {}", enc_name(code), fmt_regs(regs), d),
                ));
            }
        }
    }
    // back to the snapshot
    let mut touched = real_writes.clone();
    touched.extend(model_writes.iter().cloned());
    for &(a, _) in cells {
        touched.push((a, 0));
    }
    for k in 0..code.len() as u16 {
        let a = pc.wrapping_add(k);
        if a >= 0x8000 {
            touched.push((a, 0));
        }
    }
    if result.is_err() {
        p.real.restore(&p.snap);
        p.twin.restore(&p.snap);
    } else {
        undo(&mut p.real, &p.snap, &touched, p.ram_bank);
        undo(&mut p.twin, &p.snap, &touched, p.ram_bank);
    }
    result
}

/// The bank the standard cartridge (MBC1, 8 banks, mode 0, upper bits 0) shows at
/// 0x4000-0x7FFF after `v` was written to 0x2000-0x3FFF: five bits, 0 reads as 1, reduced
/// to the eight banks present (the register protocol C12 states; restated here so that the
/// placement does not depend on the emulator's own bank arithmetic).
pub fn mapped_bank_std(v: u8) -> usize {
    let low = (v & 0x1f) as usize;
    (if low == 0 { 1 } else { low }) % 8
}

/// put instruction bytes where the CPU will fetch them, with `mapped` the bank visible at
/// 0x4000-0x7FFF; every other bank gets the complement at the same offset, so that a fetch
/// from the wrong bank cannot go unnoticed
pub fn place_code_banked(m: &mut dyn Emu, pc: u16, code: &[u8], mapped: usize) {
    for (i, b) in code.iter().enumerate() {
        let a = pc.wrapping_add(i as u16);
        if a < 0x4000 {
            m.rom()[a as usize] = *b;
        } else if a < 0x8000 {
            let off = a as usize & 0x3fff;
            let rom = m.rom();
            let banks = rom.len() / 0x4000;
            for bank in 0..banks {
                rom[bank * 0x4000 + off] = if bank == mapped { *b } else { !*b };
            }
        } else {
            m.write(a, *b);
        }
    }
}

/// twin_check with crash breadcrumb and violation recording
pub fn twin_case(rec: &mut Rec, p: &mut Pair, code: &[u8], regs: &Regs, cells: &[(u16, u8)], scope: Scope) {
    rec.current(&case_json(code, regs, cells).to_string());
    if let Err(f) = twin_check(p, code, regs, cells, scope) {
        rec.violation(&f.sig, case_json(code, regs, cells), f.detail);
    }
}

/// signature = the encoding class (opcode, or cb+second byte)
pub fn sig_of(code: &[u8]) -> String {
    if code[0] == 0xcb {
        format!("cb{:02x}", code.get(1).cloned().unwrap_or(0))
    } else {
        format!("{:02x}", code[0])
    }
}

struct Fast {
    m: i::M,
    code: [u8; 3],
}

impl Fast {
    fn new() -> Fast {
        let rom = std_rom();
        let mut m = i::M::new(&rom);
        m.fill_ram(1);
        Fast { m, code: [0; 3] }
    }
    fn set_code(&mut self, code: &[u8]) {
        let mut c = [0u8; 3];
        c[..code.len()].copy_from_slice(code);
        self.code = c;
        let rom = self.m.rom();
        rom[CODE_PC as usize..CODE_PC as usize + 3].copy_from_slice(&c);
    }
    /// Returns (changed-something, flags-after) or the failure.
    #[inline]
    fn one(&mut self, regs: &Regs, cell: Option<u8>, rec: &mut Rec) -> bool {
        if let Some(v) = cell {
            self.m.core.memory.work_ram[(CELL & 0x1fff) as usize] = v;
        }
        self.m.set_regs(regs);
        let r = {
            let m = &mut self.m;
            guarded(|| m.interp_op())
        };
        let mut cpu = cpu_from_regs(regs);
        let mut bus = CaseBus { pc0: CODE_PC, code: self.code, cell_addr: CELL, cell: cell.unwrap_or(0), nwrites: 0, stray: false };
        let out = sm83::step(&mut cpu, &mut bus);
        let want = regs_from_cpu(&cpu, regs.cycles + out.cycles);
        let got = self.m.regs();
        let mut ok = matches!(r, Ok(Some(_))) && diff_regs(&got, &want, false, false).is_none() && !bus.stray;
        if ok && cell.is_some() {
            ok = self.m.core.memory.work_ram[(CELL & 0x1fff) as usize] == bus.cell;
        }
        if !ok {
            let code: Vec<u8> = self.code[..sm83::length(self.code[0]) as usize].to_vec();
            let detail = match &r {
                Err(m) => format!("interpreter panicked: {}", m),
                Ok(None) => "refused".to_string(),
                _ => diff_regs(&got, &want, false, false).unwrap_or_else(|| {
                    format!(
                        "memory cell = {:#04x}, expected {:#04x}",
                        self.m.core.memory.work_ram[(CELL & 0x1fff) as usize],
                        bus.cell
                    )
                }),
            };
            rec.violation(
                &format!("data-{}", sig_of(&code)),
                case_json(&code, regs, &cell.map(|v| vec![(CELL, v)]).unwrap_or_default()),
                format!("{} from {}: {}", enc_name(&code), fmt_regs(regs), detail),
            );
            if r.is_err() {
                // the machine may be in an odd state after a panic: rebuild
                *self = Fast::new();
            }
            return false;
        }
        // non-trivial: anything but PC changed
        let changed = want.af != regs.af
            || want.bc != regs.bc
            || want.de != regs.de
            || want.hl != regs.hl
            || want.sp != regs.sp
            || bus.nwrites > 0;
        changed
    }
}

fn base_regs() -> Regs {
    Regs { af: 0x1200, bc: 0x3456, de: 0x789a, hl: CELL as u32, sp: 0xdff0, pc: CODE_PC as u32, cycles: 0 }
}

fn set_r8(r: &mut Regs, idx: u8, v: u8) {
    let v = v as u32;
    match idx & 7 {
        0 => r.bc = (r.bc & 0x00ff) | v << 8,
        1 => r.bc = (r.bc & 0xff00) | v,
        2 => r.de = (r.de & 0x00ff) | v << 8,
        3 => r.de = (r.de & 0xff00) | v,
        4 => r.hl = (r.hl & 0x00ff) | v << 8,
        5 => r.hl = (r.hl & 0xff00) | v,
        6 => {}
        _ => r.af = (r.af & 0x00ff) | v << 8,
    }
}

#[derive(Clone, Debug)]
enum Item {
    Load(u8),
    Alu(u8),
    AluImm(u8),
    IncDec8(u8),
    LdImm(u8),
    Misc(u8),
    IncDec16(u8),
    AddHl(u8, u32),
    LdRr(u8),
    SpOfs(u8, u8),
    Cb(u8),
    Pop(u8),
    Push(u8),
    LdSpHl,
    Ptr(u8, u8),
    HighMem(u8),
    Abs(u8),
    StoreImm,
    /// operand bytes fetched across the end of a region and from switched banks (part 0..8)
    OperandFetch(u8),
}

fn items(tier: Tier) -> Vec<Item> {
    let mut v = Vec::new();
    for op in 0x40..=0x7fu8 {
        if op != 0x76 {
            v.push(Item::Load(op));
        }
    }
    for op in 0x80..=0xbfu8 {
        v.push(Item::Alu(op));
    }
    for op in [0xc6u8, 0xce, 0xd6, 0xde, 0xe6, 0xee, 0xf6, 0xfe] {
        v.push(Item::AluImm(op));
    }
    for y in 0..8u8 {
        v.push(Item::IncDec8(y << 3 | 4));
        v.push(Item::IncDec8(y << 3 | 5));
        v.push(Item::LdImm(y << 3 | 6));
        v.push(Item::Misc(y << 3 | 7));
    }
    for p in 0..4u8 {
        v.push(Item::IncDec16(p << 4 | 0x03));
        v.push(Item::IncDec16(p << 4 | 0x0b));
        let parts = tier.pick(1u32, 64);
        for part in 0..parts {
            v.push(Item::AddHl(p << 4 | 0x09, part));
        }
        v.push(Item::LdRr(p << 4 | 0x01));
        v.push(Item::Pop(0xc1 | p << 4));
        v.push(Item::Push(0xc5 | p << 4));
    }
    for part in 0..16u8 {
        v.push(Item::SpOfs(0xe8, part));
        v.push(Item::SpOfs(0xf8, part));
    }
    for cb in 0..=255u8 {
        v.push(Item::Cb(cb));
    }
    v.push(Item::LdSpHl);
    for op in [0x02u8, 0x12, 0x22, 0x32, 0x0a, 0x1a, 0x2a, 0x3a] {
        for part in 0..4u8 {
            v.push(Item::Ptr(op, part));
        }
    }
    for op in [0xe0u8, 0xf0, 0xe2, 0xf2] {
        v.push(Item::HighMem(op));
    }
    for op in [0xeau8, 0xfa, 0x08] {
        v.push(Item::Abs(op));
    }
    v.push(Item::StoreImm);
    for part in 0..8u8 {
        v.push(Item::OperandFetch(part));
    }
    v
}

fn classify(rec: &mut Rec, before: &Regs, fast: &Fast) {
    let after = fast.m.regs();
    let f = after.af as u8;
    if f & 0x20 != 0 {
        rec.class("half-carry", 1);
    }
    if f & 0x10 != 0 {
        rec.class("carry", 1);
    }
    if f & 0x80 != 0 {
        rec.class("zero", 1);
    }
    let _ = before;
}

fn run(rec: &mut Rec) {
    let tier = rec.ctx.tier;
    let all = items(tier);
    let mut fast = Fast::new();
    let mut pair: Option<Pair> = None;
    let mut rng = bulk_rng(&rec.ctx, "c05");
    use proptest::prelude::RngCore;
    for (idx, item) in all.iter().enumerate() {
        if !rec.ctx.mine(idx) {
            continue;
        }
        if rec.too_many() {
            break;
        }
        rec.current(&json!({"kind": "item", "item": format!("{:?}", item)}).to_string());
        let mut n = 0u64;
        let mut nt = 0u64;
        let mut sample_regs: Option<(Vec<u8>, Regs, Option<u8>)> = None;
        match item.clone() {
            Item::Load(op) => {
                fast.set_code(&[op]);
                let z = op & 7;
                for v in 0..=255u8 {
                    let mut r = base_regs();
                    let cell = if z == 6 || (op >> 3) & 7 == 6 { Some(if z == 6 { v } else { !v }) } else { None };
                    set_r8(&mut r, z, v);
                    // keep HL pointing at the cell for (HL) forms
                    if cell.is_some() {
                        r.hl = CELL as u32;
                        if z == 4 || z == 5 {
                            // LD (HL),H / LD (HL),L: source is part of the pointer
                        }
                    }
                    n += 1;
                    if fast.one(&r, cell, rec) {
                        nt += 1;
                    }
                    sample_regs = Some((vec![op], r, cell));
                }
                rec.class("load", 256);
            }
            Item::Alu(op) => {
                fast.set_code(&[op]);
                let z = op & 7;
                for a in 0..=255u8 {
                    let vals: Box<dyn Iterator<Item = u8>> = if z == 7 { Box::new(std::iter::once(a)) } else { Box::new(0..=255u8) };
                    for v in vals {
                        for f in LEGAL_F {
                            let mut r = base_regs();
                            r.af = (a as u32) << 8 | f as u32;
                            let cell = if z == 6 { Some(v) } else { None };
                            set_r8(&mut r, z, v);
                            if z == 6 {
                                r.hl = CELL as u32;
                            }
                            n += 1;
                            if fast.one(&r, cell, rec) {
                                nt += 1;
                            }
                            if (a ^ v) & 0x3f == 0x15 && f == 0x10 {
                                classify(rec, &r, &fast);
                                sample_regs = Some((vec![op], r, cell));
                            }
                        }
                    }
                }
                rec.class("alu-r", n);
            }
            Item::AluImm(op) => {
                for v in 0..=255u8 {
                    fast.set_code(&[op, v]);
                    for a in 0..=255u8 {
                        for f in LEGAL_F {
                            let mut r = base_regs();
                            r.af = (a as u32) << 8 | f as u32;
                            n += 1;
                            if fast.one(&r, None, rec) {
                                nt += 1;
                            }
                            if (a ^ v) & 0x3f == 0x2a && f == 0x90 {
                                classify(rec, &r, &fast);
                                sample_regs = Some((vec![op, v], r, None));
                            }
                        }
                    }
                }
                rec.class("alu-imm", n);
            }
            Item::IncDec8(op) => {
                fast.set_code(&[op]);
                let y = (op >> 3) & 7;
                for v in 0..=255u8 {
                    for f in LEGAL_F {
                        let mut r = base_regs();
                        r.af = (r.af & 0xff00) | f as u32;
                        set_r8(&mut r, y, v);
                        let cell = if y == 6 { Some(v) } else { None };
                        if y == 6 {
                            r.hl = CELL as u32;
                        }
                        n += 1;
                        if fast.one(&r, cell, rec) {
                            nt += 1;
                        }
                        sample_regs = Some((vec![op], r, cell));
                    }
                }
                rec.class("incdec8", n);
            }
            Item::LdImm(op) => {
                let y = (op >> 3) & 7;
                for v in 0..=255u8 {
                    fast.set_code(&[op, v]);
                    let mut r = base_regs();
                    r.af |= 0xf0 & (v as u32);
                    let cell = if y == 6 { Some(!v) } else { None };
                    n += 1;
                    if fast.one(&r, cell, rec) {
                        nt += 1;
                    }
                    sample_regs = Some((vec![op, v], r, cell));
                }
                rec.class("ld-imm", n);
            }
            Item::Misc(op) => {
                fast.set_code(&[op]);
                for a in 0..=255u8 {
                    for f in LEGAL_F {
                        let mut r = base_regs();
                        r.af = (a as u32) << 8 | f as u32;
                        n += 1;
                        if fast.one(&r, None, rec) {
                            nt += 1;
                        }
                        if a == 0x9a {
                            classify(rec, &r, &fast);
                            sample_regs = Some((vec![op], r, None));
                        }
                    }
                }
                rec.class("rot-daa-misc", n);
            }
            Item::IncDec16(op) => {
                fast.set_code(&[op]);
                let p = op >> 4;
                for v in 0..=0xffffu32 {
                    for f in [0x00u32, 0xf0] {
                        let mut r = base_regs();
                        r.af = (r.af & 0xff00) | f;
                        match p {
                            0 => r.bc = v,
                            1 => r.de = v,
                            2 => r.hl = v,
                            _ => r.sp = v,
                        }
                        n += 1;
                        if fast.one(&r, None, rec) {
                            nt += 1;
                        }
                        sample_regs = Some((vec![op], r, None));
                    }
                }
                rec.class("incdec16", n);
                if rec.ctx.tier == Tier::Quick || true {
                    rec.exhaustive_part(format!("INC/DEC rr opcode {:02x}: all 65536 values", op));
                }
            }
            Item::AddHl(op, part) => {
                fast.set_code(&[op]);
                let p = op >> 4;
                let set = |r: &mut Regs, hl: u32, v: u32| {
                    r.hl = hl;
                    match p {
                        0 => r.bc = v,
                        1 => r.de = v,
                        2 => r.hl = v,
                        _ => r.sp = v,
                    }
                };
                let edge: Vec<u32> = vec![
                    0, 1, 2, 0xf, 0x10, 0xff, 0x100, 0x7ff, 0x800, 0xfff, 0x1000, 0x1001, 0x7fff, 0x8000, 0x8001, 0xefff, 0xf000,
                    0xf001, 0xf7ff, 0xf800, 0xfffe, 0xffff,
                ];
                if part == 0 {
                    for &hl in &edge {
                        for &v in &edge {
                            for f in LEGAL_F {
                                let mut r = base_regs();
                                r.af = 0x5500 | f as u32;
                                set(&mut r, hl, v);
                                n += 1;
                                if fast.one(&r, None, rec) {
                                    nt += 1;
                                }
                                classify(rec, &r, &fast);
                            }
                        }
                    }
                }
                if p == 2 {
                    if part == 0 {
                        for hl in 0..=0xffffu32 {
                            let mut r = base_regs();
                            r.af = 0x5500 | ((hl & 0xf) << 4);
                            set(&mut r, hl, hl);
                            n += 1;
                            if fast.one(&r, None, rec) {
                                nt += 1;
                            }
                            sample_regs = Some((vec![op], r, None));
                        }
                        rec.exhaustive_part("ADD HL,HL: all 65536 values");
                    }
                } else if tier == Tier::Quick {
                    for _ in 0..(1u32 << 21) {
                        let x = rng.next_u32();
                        let mut r = base_regs();
                        r.af = 0x5500 | ((x >> 28) << 4);
                        set(&mut r, x & 0xffff, (x >> 12) & 0xffff ^ (x & 0xf));
                        n += 1;
                        if fast.one(&r, None, rec) {
                            nt += 1;
                        }
                        sample_regs = Some((vec![op], r, None));
                    }
                } else {
                    // thorough: all 2^32 (HL, rr) pairs, split in 64 parts by HL
                    let lo = part * 1024;
                    for hl in lo..lo + 1024 {
                        for v in 0..=0xffffu32 {
                            let mut r = base_regs();
                            r.af = 0x5500 | ((v & 0xf) << 4);
                            set(&mut r, hl, v);
                            n += 1;
                            if fast.one(&r, None, rec) {
                                nt += 1;
                            }
                        }
                    }
                    sample_regs = Some((vec![op], base_regs(), None));
                    rec.exhaustive_part(format!("ADD HL,rr opcode {:02x}: all 2^32 pairs (part {}/64)", op, part));
                }
                rec.class("addhl", n);
            }
            Item::LdRr(op) => {
                for k in 0..4096u32 {
                    let v = (k * 16 + (k >> 8)) as u16 ^ if k & 1 == 1 { 0xffff } else { 0 };
                    fast.set_code(&[op, v as u8, (v >> 8) as u8]);
                    let r = base_regs();
                    n += 1;
                    if fast.one(&r, None, rec) {
                        nt += 1;
                    }
                    sample_regs = Some((vec![op, v as u8, (v >> 8) as u8], r, None));
                }
                rec.class("ld-rr", n);
            }
            Item::SpOfs(op, part) => {
                for e in (part as u32 * 16)..(part as u32 * 16 + 16) {
                    fast.set_code(&[op, e as u8]);
                    for sp in 0..=0xffffu32 {
                        let mut r = base_regs();
                        r.sp = sp;
                        r.af = 0x1200 | ((sp & 0xf) << 4);
                        n += 1;
                        if fast.one(&r, None, rec) {
                            nt += 1;
                        }
                        if sp == 0x00ff {
                            classify(rec, &r, &fast);
                            sample_regs = Some((vec![op, e as u8], r, None));
                        }
                    }
                }
                rec.class("spofs", n);
                rec.exhaustive_part(format!("opcode {:02x}: all SP values x offsets {:#04x}..{:#04x}", op, part * 16, part * 16 + 15));
            }
            Item::Cb(cb) => {
                fast.set_code(&[0xcb, cb]);
                let z = cb & 7;
                for v in 0..=255u8 {
                    for f in LEGAL_F {
                        let mut r = base_regs();
                        r.af = (r.af & 0xff00) | f as u32;
                        set_r8(&mut r, z, v);
                        let cell = if z == 6 { Some(v) } else { None };
                        if z == 6 {
                            r.hl = CELL as u32;
                        }
                        n += 1;
                        if fast.one(&r, cell, rec) {
                            nt += 1;
                        }
                        if v == 0x80 && f == 0x10 {
                            classify(rec, &r, &fast);
                            sample_regs = Some((vec![0xcb, cb], r, cell));
                        }
                    }
                }
                rec.class("cb", n);
            }
            Item::LdSpHl => {
                fast.set_code(&[0xf9]);
                for hl in 0..=0xffffu32 {
                    let mut r = base_regs();
                    r.hl = hl;
                    n += 1;
                    if fast.one(&r, None, rec) {
                        nt += 1;
                    }
                    sample_regs = Some((vec![0xf9], r, None));
                }
                rec.class("ld-sp-hl", n);
            }
            Item::Pop(op) => {
                // all 2^16 stack words, through the real bus (twin path), SP in work RAM
                // plus SP at every region boundary
                let p = pair.get_or_insert_with(Pair::new);
                let sps: Vec<u32> = vec![0xc100, 0xcfff, 0xdffe, 0xdfff, 0xfffe, 0xffff, 0xff7f, 0xfe9f, 0x9fff, 0xbfff, 0x7fff, 0x3fff, 0x0000];
                for w in 0..=0xffffu32 {
                    let sp = if w & 0xff == 0x5a { sps[(w >> 8) as usize % sps.len()] } else { 0xc100 };
                    let mut r = base_regs();
                    r.sp = sp;
                    r.af = 0x1200 | (w & 0xf0);
                    let code = [op];
                    let cells: Vec<(u16, u8)> = if sp == 0xc100 { vec![(0xc100, w as u8), (0xc101, (w >> 8) as u8)] } else { vec![] };
                    twin_case(rec, p, &code, &r, &cells, Scope::Data);
                    n += 1;
                    nt += 1;
                    sample_regs = Some((vec![op], r, None));
                }
                rec.class("pop", n);
            }
            Item::Push(op) => {
                let p = pair.get_or_insert_with(Pair::new);
                let sps: Vec<u32> = vec![0xc100, 0xd000, 0xd001, 0xe000, 0xe001, 0xfe00, 0xfe01, 0xfea0, 0xfea1, 0xff80, 0xff81, 0x0000, 0x0001, 0x0002, 0xa000, 0xa001, 0x8000, 0x8001, 0xc000, 0xc001, 0xffff];
                for w in 0..=0xffffu32 {
                    let sp = if w & 0xff == 0xa5 { sps[(w >> 8) as usize % sps.len()] } else { 0xc100 };
                    let mut r = base_regs();
                    r.sp = sp;
                    match op >> 4 & 3 {
                        0 => r.bc = w,
                        1 => r.de = w,
                        2 => r.hl = w,
                        _ => r.af = w & 0xfff0,
                    }
                    let code = [op];
                    twin_case(rec, p, &code, &r, &[], Scope::Data);
                    n += 1;
                    nt += 1;
                    sample_regs = Some((vec![op], r, None));
                }
                rec.class("push", n);
            }
            Item::Ptr(op, part) => {
                let p = pair.get_or_insert_with(Pair::new);
                let lo = part as u32 * 0x4000;
                for ptr in lo..lo + 0x4000 {
                    let mut r = base_regs();
                    r.af = ((ptr as u32 * 7 + 3) & 0xff) << 8 | 0x50;
                    match op >> 4 {
                        0 => r.bc = ptr,
                        1 => r.de = ptr,
                        _ => r.hl = ptr,
                    }
                    // known side effect: writes below 0x8000 reprogram the bank controller; both sides do it
                    let code = [op];
                    twin_case(rec, p, &code, &r, &[], Scope::Data);
                    n += 1;
                    nt += 1;
                    if ptr & 0xfff == 0xfff {
                        sample_regs = Some((vec![op], r, None));
                    }
                }
                rec.class("ptr", n);
                rec.exhaustive_part(format!("opcode {:02x}: pointer values {:#06x}..{:#06x}", op, lo, lo + 0x3fff));
            }
            Item::HighMem(op) => {
                let p = pair.get_or_insert_with(Pair::new);
                for lowaddr in 0..=255u32 {
                    for a in [0x00u32, 0x5a, 0x80, 0xff] {
                        let mut r = base_regs();
                        r.af = a << 8;
                        r.bc = 0x3400 | lowaddr;
                        let code: Vec<u8> = if op & 0x0f == 0 { vec![op, lowaddr as u8] } else { vec![op] };
                        twin_case(rec, p, &code, &r, &[], Scope::Data);
                        n += 1;
                        nt += 1;
                        sample_regs = Some((code, r, None));
                    }
                }
                rec.class("highmem", n);
            }
            Item::Abs(op) => {
                let p = pair.get_or_insert_with(Pair::new);
                let mut addrs: Vec<u32> = (0..4096u32).map(|k| (k * 16 + (k % 16)) & 0xffff).collect();
                addrs.extend([0x7fff, 0x8000, 0x9fff, 0xa000, 0xbfff, 0xc000, 0xcfff, 0xd000, 0xdfff, 0xe000, 0xfdff, 0xfe00, 0xfe9f, 0xfea0, 0xfeff, 0xff00, 0xff7f, 0xff80, 0xfffe, 0xffff]);
                for nn in addrs {
                    let mut r = base_regs();
                    r.af = ((nn * 3 + 1) & 0xff) << 8;
                    r.sp = (nn * 0x101 + 0x77) & 0xffff;
                    let code = [op, nn as u8, (nn >> 8) as u8];
                    twin_case(rec, p, &code, &r, &[], Scope::Data);
                    n += 1;
                    nt += 1;
                    sample_regs = Some((code.to_vec(), r, None));
                }
                rec.class("abs", n);
            }
            Item::OperandFetch(part) => {
                // every data instruction with operand bytes (immediates, high-page offsets,
                // absolute addresses, the CB page), placed so that its operand bytes lie at
                // the end of a fetch region, in the next region, or in a ROM bank other than
                // the power-on one (bank register 2, 5, 7; 8, 0x10, 0x18 wrap to bank 0 / 1 on
                // the eight-bank cartridge; 0x1f reduces to 7)
                let p = pair.get_or_insert_with(Pair::new);
                let pcs: [u16; 12] = [0x3ffd, 0x3ffe, 0x3fff, 0x4000, 0x6abc, 0x7ffd, 0x7ffe, 0x7fff, 0xcffe, 0xcfff, 0xdffd, 0xff80];
                let banks: [Option<u8>; 9] = [None, Some(2), Some(5), Some(7), Some(8), Some(0x10), Some(0x18), Some(0x1f), Some(0)];
                let mut k = part as u32 * 977;
                for op in 0..=255u8 {
                    if op as usize % 8 != part as usize || sm83::is_undefined(op) || sm83::is_terminator(op) || op == 0x10 || op == 0x76 {
                        continue;
                    }
                    let len = sm83::length(op);
                    if len < 2 {
                        continue;
                    }
                    for &pc in pcs.iter() {
                        for &bank in banks.iter() {
                            if bank.is_some() && pc >= 0x8000 {
                                continue;
                            }
                            for variant in 0..3u32 {
                                k += 1;
                                let mut r = base_regs();
                                r.pc = pc as u32;
                                r.af = ((k * 29 + 7) & 0xff) << 8 | [0x00u32, 0xf0, 0x50][variant as usize];
                                r.hl = 0xc280 + (k & 0x3f);
                                r.sp = 0xdf00 + (k & 0x7f);
                                let mut code = vec![op];
                                if op == 0xcb {
                                    // register forms and (HL) forms of every CB group
                                    code.push((k * 13 + variant * 64) as u8);
                                } else if len == 2 {
                                    code.push([(k * 37 + 5) as u8, 0x00, 0xff][variant as usize]);
                                } else {
                                    // absolute addresses in plain RAM only (a store must not hit the code or a register)
                                    let nn: u16 = if matches!(op, 0xea | 0xfa | 0x08) { 0xc300 + ((k * 7) & 0xff) as u16 } else { (k * 0x1357 + variant * 0x8001) as u16 };
                                    code.push(nn as u8);
                                    code.push((nn >> 8) as u8);
                                }
                                if matches!(op, 0xe0 | 0xf0) {
                                    // high-page forms: high RAM only
                                    code[1] = 0x80 | (code[1] & 0x7f).min(0x7e);
                                }
                                let cells: Vec<(u16, u8)> = bank.map(|b| vec![(0x2100u16, b)]).unwrap_or_default();
                                twin_case(rec, p, &code, &r, &cells, Scope::Data);
                                n += 1;
                                nt += 1;
                                let end = pc as u32 + len as u32;
                                if (pc < 0x4000 && end > 0x4000) || (pc < 0x8000 && end > 0x8000) || (pc < 0xd000 && end > 0xd000) {
                                    rec.class("operand-across-region-end", 1);
                                    if bank.is_some() && pc < 0x4000 {
                                        rec.class("operand-in-switched-bank", 1);
                                    }
                                }
                                if bank.map(|b| mapped_bank_std(b) == 0).unwrap_or(false) && pc >= 0x3ffe && pc < 0x8000 {
                                    rec.class("operand-in-bank-wrapped-to-0", 1);
                                }
                                sample_regs = Some((code, r, None));
                            }
                        }
                    }
                }
                rec.class("operand-fetch", n);
            }
            Item::StoreImm => {
                let p = pair.get_or_insert_with(Pair::new);
                for k in 0..8192u32 {
                    let hl = (k * 8 + (k & 7)) & 0xffff;
                    let v = (k * 37 + 11) as u8;
                    let mut r = base_regs();
                    r.hl = hl;
                    let code = [0x36, v];
                    twin_case(rec, p, &code, &r, &[], Scope::Data);
                    n += 1;
                    nt += 1;
                    sample_regs = Some((code.to_vec(), r, None));
                }
                rec.class("store-imm", n);
            }
        }
        rec.eval(n);
        rec.nontrivial_direct(nt);
        if let Some((code, r, cell)) = sample_regs {
            rec.sample(|| case_json(&code, &r, &cell.map(|v| vec![(CELL, v)]).unwrap_or_default()));
        }
    }
}

fn replay(case: &Value, rec: &mut Rec) {
    replay_scope(case, rec, Scope::Data)
}

pub fn replay_scope(case: &Value, rec: &mut Rec, scope: Scope) {
    let code = unhex(case.get("code").and_then(|c| c.as_str()).unwrap_or(""));
    let regs: Regs = match serde_json::from_value(case.get("regs").cloned().unwrap_or(Value::Null)) {
        Ok(r) => r,
        Err(_) => {
            rec.inconclusive("replay case has no regs");
            return;
        }
    };
    if code.is_empty() {
        rec.inconclusive("replay case has no code");
        return;
    }
    let cells: Vec<(u16, u8)> = case
        .get("cells")
        .and_then(|c| c.as_array())
        .map(|arr| {
            arr.iter()
                .filter_map(|e| e.as_array())
                .map(|a| (a[0].as_u64().unwrap_or(0) as u16, a[1].as_u64().unwrap_or(0) as u8))
                .collect()
        })
        .unwrap_or_default();
    let mut p = Pair::new();
    rec.eval(1);
    if let Err(f) = twin_check(&mut p, &code, &regs, &cells, scope) {
        rec.violation(&f.sig, case.clone(), f.detail);
    }
}

#[allow(dead_code)]
fn _unused(_: Cpu) {}
