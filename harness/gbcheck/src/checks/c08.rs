//! C08 — EI delay, DI/RETI immediacy and HALT/STOP suspension hold for any sequence.

use super::common::*;
use crate::engine::*;
use crate::mach::{diff_state, i, Emu, Regs, Snapshot, HALTED, IME_DISABLED, IME_ENABLED, IME_ENABLE_NEXT, RUN, STOPPED};
use crate::refmach::{ime_code, run_code, RefMachine};
use models::irq::Outcome as IrqOutcome;
use models::sm83::Ctl;
use proptest::prelude::*;
use serde_json::{json, Value};

pub static DEF: CheckDef = CheckDef {
    id: "C08",
    run,
    replay,
    rule: "instruction sequences over {EI, DI, RETI (as CALL to a RETI), HALT, STOP (second byte 0x00; in the generated sequences also any other second byte, EI/DI/HALT/RETI opcodes included - it is never executed), NOP, LD A,v; LDH (0x0F),A (raise requests), LD A,v; LDH (0xFF),A (write IE)} are assembled at 0x0150 of a ROM whose five interrupt vectors hold generated handlers (RETI / RET / EI;RET / NOP;RETI / DI;RETI / EI;RETI), and executed one instruction at a time with Core::update() in the interpreter build. Enumerated completely: all sequences up to length 5 (quick) or 6 (thorough) x initial master enable (off, on, EI-pending) x 6 initial IF/IE patterns x 2 handler sets; plus proptest sequences up to length 40 with arbitrary operands, handlers, initial run state and initial stack pointer (work RAM, or 0x0000 / 0x0001 / 0xFF10 / 0xFFFE, where a dispatch pushes onto IE or IF and can cancel itself). Oracle: lock-step reference machine (models::sm83 + models::irq on a twin bus): after every step PC, SP, all registers, master-enable state, run state, IF, IE and the pending dispatch cycles must be equal; complete machine state at the end. A case ends where the reference would execute HALT with an enabled request already pending (excluded quirk; counted). Non-trivial = sequence in which at least one of these events occurs in the reference run: EI;DI, EI;EI, EI followed by RETI, HALT or STOP right after EI, a dispatch, a wake-up without dispatch, a dispatch directly after RETI.",
    assumptions: &[
        "models::sm83 + models::irq: EI enables after the following instruction, DI and RETI immediately, HALT/STOP suspend until IF & IE != 0, wake-up without dispatch when the master enable is off",
        "STOP is treated like HALT, as the property states it (no joypad-only wake-up)",
        "HALT executed while IF & IE != 0 is outside the domain (hardware quirk excluded by the property)",
        "devices behind the bus come from the repository on both sides (no device interrupt occurs within these short runs unless the sequence programs one)",
    ],
    required_classes: &["ei-di", "ei-ei", "ei-reti", "ei-halt", "ei-stop", "dispatch", "wake-without-dispatch", "dispatch-after-reti", "halt-suspended-steps", "stop-suspended-steps", "excluded-halt-quirk", "generated-sequence", "cancelled-dispatch"],
    exhaustive: true,
};

#[derive(Clone, Copy, Debug, PartialEq, Eq, serde::Serialize, serde::Deserialize)]
enum Sym {
    Ei,
    Di,
    Reti,
    Halt,
    Stop,
    Nop,
    Raise(u8),
    WriteIe(u8),
    /// STOP with an arbitrary second byte (the instruction is two bytes long whatever it holds)
    Stop2(u8),
}

#[derive(Clone, Debug, serde::Serialize, serde::Deserialize)]
struct Case {
    seq: Vec<Sym>,
    ime: u8,
    run: u8,
    if0: u8,
    ie0: u8,
    handlers: [u8; 5],
    /// initial stack pointer: index into SPS (0 = work RAM; the others make a dispatch push
    /// onto IE / IF / the top of high RAM, so that it can cancel itself)
    #[serde(default)]
    sp_sel: u8,
}

const SPS: [u16; 5] = [0xdff0, 0x0000, 0x0001, 0xff10, 0xfffe];

fn case_json(c: &Case) -> Value {
    json!({"kind": "seq", "case": c})
}

fn assemble(seq: &[Sym]) -> Vec<u8> {
    let mut v = Vec::new();
    for s in seq {
        match s {
            Sym::Ei => v.push(0xfb),
            Sym::Di => v.push(0xf3),
            Sym::Reti => v.extend([0xcd, 0x00, 0x01]),
            Sym::Halt => v.push(0x76),
            Sym::Stop => v.extend([0x10, 0x00]),
            Sym::Stop2(b) => v.extend([0x10, *b]),
            Sym::Nop => v.push(0x00),
            Sym::Raise(x) => v.extend([0x3e, *x, 0xe0, 0x0f]),
            Sym::WriteIe(x) => v.extend([0x3e, *x, 0xe0, 0xff]),
        }
    }
    v.extend([0x18, 0xfe]);
    v
}

fn handler_bytes(kind: u8) -> &'static [u8] {
    match kind % 6 {
        0 => &[0xd9],
        1 => &[0xc9],
        2 => &[0xfb, 0xc9],
        3 => &[0x00, 0xd9],
        4 => &[0xf3, 0xd9],
        _ => &[0xfb, 0xd9],
    }
}

struct World {
    a: i::M,
    r: RefMachine<i::M>,
    snap: Snapshot,
}

fn new_world() -> World {
    let mut rom = std_rom();
    rom.bytes[0] = 0xc3;
    rom.bytes[1] = 0x50;
    rom.bytes[2] = 0x01;
    rom.bytes[0x100] = 0xd9;
    let mut a = i::M::new(&rom);
    let mut t = i::M::new(&rom);
    a.fill_ram(0xc08);
    t.fill_ram(0xc08);
    let snap = a.snapshot(vec![]);
    World { a, r: RefMachine::new(t), snap }
}

fn load(m: &mut i::M, c: &Case, code: &[u8]) {
    let rom = m.rom();
    for (k, h) in c.handlers.iter().enumerate() {
        let base = 0x40 + 8 * k;
        for b in &mut rom[base..base + 8] {
            *b = 0;
        }
        let hb = handler_bytes(*h);
        rom[base..base + hb.len()].copy_from_slice(hb);
    }
    rom[0x150..0x150 + code.len()].copy_from_slice(code);
}

#[derive(Default)]
struct Events {
    ei_di: bool,
    ei_ei: bool,
    ei_reti: bool,
    ei_halt: bool,
    ei_stop: bool,
    dispatch: bool,
    wake_no_dispatch: bool,
    dispatch_after_reti: bool,
    halt_steps: u32,
    stop_steps: u32,
    quirk: bool,
    cancelled: bool,
}

fn exec(w: &mut World, c: &Case, rec: &mut Rec, counting: bool) -> CaseResult {
    let code = assemble(&c.seq);
    w.a.restore(&w.snap);
    w.r.t.restore(&w.snap);
    load(&mut w.a, c, &code);
    load(&mut w.r.t, c, &code);
    let regs = Regs { af: 0x0100, bc: 0x0013, de: 0x00d8, hl: 0x014d, sp: SPS[c.sp_sel as usize % SPS.len()] as u32, pc: 0x0150, cycles: 0 };
    for m in [&mut w.a, &mut w.r.t] {
        m.write(0xffff, c.ie0);
        m.write(0xff0f, c.if0);
        m.set_ime(c.ime);
        m.set_run_state(c.run);
        m.set_regs(&regs);
    }
    w.r.set_regs(&regs);
    w.r.ime = crate::refmach::ime_model(c.ime);
    w.r.run = crate::refmach::run_model(c.run);
    let steps = 4 * code.len() + 12;
    let mut ev = Events::default();
    let mut prev_ctl = Ctl::None;
    let mut verdict: CaseResult = Ok(());
    for step in 0..steps {
        let info = w.r.step_instruction();
        if let Some(why) = info.out_of_domain {
            if why.starts_with("HALT") {
                ev.quirk = true;
            }
            break;
        }
        if info.executed {
            match (prev_ctl, info.ctl) {
                (Ctl::Ei, Ctl::Di) => ev.ei_di = true,
                (Ctl::Ei, Ctl::Ei) => ev.ei_ei = true,
                (Ctl::Ei, Ctl::Halt) => ev.ei_halt = true,
                (Ctl::Ei, Ctl::Stop) => ev.ei_stop = true,
                _ => {}
            }
            // "EI; RETI" in program order is EI; CALL; RETI
            if info.ctl == Ctl::Reti && w.r.t.read(w.r.cpu.pc.wrapping_sub(4)) == 0xfb {
                ev.ei_reti = true;
            }
            if info.ctl == Ctl::Reti {
                if let IrqOutcome::Dispatched { .. } = info.irq {
                    ev.dispatch_after_reti = true;
                }
            }
            prev_ctl = info.ctl;
        } else if w.r.run == models::irq::Run::Halt || (info.was_suspended && matches!(info.irq, IrqOutcome::Nothing)) {
            // a step spent suspended
        }
        if !info.executed {
            // which suspension: look at the real machine's state before its step
            match w.a.run_state() {
                HALTED => ev.halt_steps += 1,
                STOPPED => ev.stop_steps += 1,
                _ => {}
            }
        }
        match info.irq {
            IrqOutcome::Dispatched { ack, .. } => {
                ev.dispatch = true;
                if ack == 0 {
                    ev.cancelled = true;
                }
            }
            IrqOutcome::Woke if info.was_suspended => ev.wake_no_dispatch = true,
            _ => {}
        }
        let r = guarded(|| w.a.step_update());
        if let Err(msg) = r {
            verdict = Err(Fail::new("panic", format!("update() panicked at step {}: {}", step, msg)));
            break;
        }
        let (ra, rr) = (w.a.regs(), w.r.regs());
        let what = if info.executed { format!("after executing opcode {:#04x}", info.opcode) } else { "after a suspended step".to_string() };
        let dispatched = matches!(info.irq, IrqOutcome::Dispatched { .. });
        if w.a.ime() != ime_code(w.r.ime) {
            let sig = match (w.a.ime(), ime_code(w.r.ime)) {
                (IME_ENABLED, IME_ENABLE_NEXT) => "ime-enabled-too-early",
                (IME_ENABLE_NEXT, IME_ENABLED) | (IME_DISABLED, IME_ENABLED) => "ime-enabled-too-late",
                (_, IME_DISABLED) => "ime-not-disabled",
                _ => "ime",
            };
            verdict = Err(Fail::new(sig, format!("step {} ({}): master enable state {} but the reference has {} (0 off, 1 on, 2 on after next instruction)", step, what, w.a.ime(), ime_code(w.r.ime))));
            break;
        }
        if w.a.run_state() != run_code(w.r.run) {
            verdict = Err(Fail::new("run-state", format!("step {} ({}): run state {} but the reference has {} (0 running, 1 stopped, 2 halted)", step, what, w.a.run_state(), run_code(w.r.run))));
            break;
        }
        if ra.pc != rr.pc || ra.sp != rr.sp {
            let sig = if dispatched { "dispatch-missing-or-wrong" } else if ra.pc >= 0x40 && ra.pc <= 0x68 && ra.sp + 2 == rr.sp { "unexpected-dispatch" } else { "pc-sp" };
            verdict = Err(Fail::new(sig, format!("step {} ({}): PC={:#06x} SP={:#06x}, reference PC={:#06x} SP={:#06x} (reference interrupt outcome: {:?})", step, what, ra.pc, ra.sp, rr.pc, rr.sp, info.irq)));
            break;
        }
        if let Some(d) = diff_regs(&ra, &rr, true, true) {
            verdict = Err(Fail::new("registers", format!("step {} ({}): {}", step, what, d)));
            break;
        }
        let (ifa, ifr) = (w.a.read(0xff0f) & 0x1f, w.r.t.read(0xff0f) & 0x1f);
        let (iea, ier) = (w.a.read(0xffff), w.r.t.read(0xffff));
        if ifa != ifr || iea != ier {
            verdict = Err(Fail::new("if-ie", format!("step {} ({}): IF={:#04x} IE={:#04x}, reference IF={:#04x} IE={:#04x}", step, what, ifa, iea, ifr, ier)));
            break;
        }
    }
    if verdict.is_ok() {
        if let Some(d) = diff_state(&w.a, &w.r.t, &["af", "bc", "de", "hl", "sp", "pc", "pending_cycles", "ime", "run_state"]) {
            verdict = Err(Fail::new("state", format!("machine state differs from the reference at the end of the run: {}", d)));
        }
    }
    if counting {
        rec.eval(1);
        let mut nt = false;
        let mut mark = |rec: &mut Rec, name: &str, on: bool| {
            if on {
                rec.class(name, 1);
            }
            on
        };
        nt |= mark(rec, "ei-di", ev.ei_di);
        nt |= mark(rec, "ei-ei", ev.ei_ei);
        nt |= mark(rec, "ei-reti", ev.ei_reti);
        nt |= mark(rec, "ei-halt", ev.ei_halt);
        nt |= mark(rec, "ei-stop", ev.ei_stop);
        nt |= mark(rec, "dispatch", ev.dispatch);
        nt |= mark(rec, "wake-without-dispatch", ev.wake_no_dispatch);
        nt |= mark(rec, "dispatch-after-reti", ev.dispatch_after_reti);
        nt |= mark(rec, "cancelled-dispatch", ev.cancelled);
        mark(rec, "halt-suspended-steps", ev.halt_steps > 0);
        mark(rec, "stop-suspended-steps", ev.stop_steps > 0);
        if ev.quirk {
            rec.class("excluded-halt-quirk", 1);
            rec.excluded(1);
        }
        if nt {
            rec.nontrivial(fnv(format!("{:?}", c).as_bytes()));
        }
    }
    verdict
}

const ALPHABET: [Sym; 8] = [Sym::Ei, Sym::Di, Sym::Reti, Sym::Halt, Sym::Stop, Sym::Nop, Sym::Raise(0x04), Sym::WriteIe(0x04)];
const PATTERNS: [(u8, u8); 6] = [(0, 0), (0x04, 0x04), (0x04, 0), (0, 0x04), (0x15, 0x1f), (0x08, 0x1c)];

fn run(rec: &mut Rec) {
    let mut w = new_world();
    let maxlen = rec.ctx.tier.pick(5usize, 6);
    let mut idx = 0usize;
    for len in 0..=maxlen {
        let total = 8usize.pow(len as u32);
        for code in 0..total {
            idx += 1;
            if !rec.ctx.mine(idx) || rec.too_many() {
                continue;
            }
            let mut seq = Vec::with_capacity(len);
            let mut x = code;
            for _ in 0..len {
                seq.push(ALPHABET[x % 8]);
                x /= 8;
            }
            for ime in [IME_DISABLED, IME_ENABLED, IME_ENABLE_NEXT] {
                for (pi, (if0, ie0)) in PATTERNS.iter().enumerate() {
                    for hs in 0..2u8 {
                        // the second handler set only on sequences that can dispatch
                        if hs == 1 && !(seq.contains(&Sym::Ei) || ime != IME_DISABLED || seq.contains(&Sym::Reti)) {
                            continue;
                        }
                        let handlers = if hs == 0 { [0u8; 5] } else { [2, 3, 1, 5, 4] };
                        let c = Case { seq: seq.clone(), ime, run: RUN, if0: *if0, ie0: *ie0, handlers, sp_sel: 0 };
                        if idx % 512 == 1 && pi == 0 {
                            rec.current(&case_json(&c).to_string());
                        }
                        if let Err(f) = exec(&mut w, &c, rec, true) {
                            rec.violation(&f.sig, case_json(&c), f.detail);
                        }
                        if idx % 9973 == 0 && pi == 1 && hs == 0 && ime == IME_DISABLED {
                            rec.sample(|| case_json(&c));
                        }
                    }
                }
            }
        }
    }
    rec.exhaustive_part(format!("all sequences of length 0..={} over the 8-symbol alphabet x 3 master-enable states x 6 IF/IE patterns (x 2 handler sets where a dispatch is possible)", maxlen));
    // generated sequences
    let cases = rec.ctx.tier.pick(4000u32, 120_000);
    let sym = prop_oneof![
        3 => Just(Sym::Ei),
        2 => Just(Sym::Di),
        2 => Just(Sym::Reti),
        2 => Just(Sym::Halt),
        1 => Just(Sym::Stop),
        1 => prop_oneof![Just(0xfbu8), Just(0xf3), Just(0x76), Just(0xd9), Just(0x10), Just(0x3c), any::<u8>()].prop_map(Sym::Stop2),
        2 => Just(Sym::Nop),
        3 => (0u8..32).prop_map(Sym::Raise),
        1 => any::<u8>().prop_map(Sym::Raise),
        3 => any::<u8>().prop_map(Sym::WriteIe),
    ];
    let sp_sel = prop_oneof![6 => Just(0u8), 2 => Just(1u8), 1 => Just(2u8), 1 => Just(3u8), 1 => Just(4u8)];
    let strat = (prop::collection::vec(sym, 0..40), 0u8..3, 0u8..3, 0u8..32, any::<u8>(), [0u8..6, 0u8..6, 0u8..6, 0u8..6, 0u8..6], sp_sel).prop_map(|(seq, ime, run, if0, ie0, handlers, sp_sel)| Case {
        seq,
        ime: [IME_DISABLED, IME_ENABLED, IME_ENABLE_NEXT][ime as usize],
        run: [RUN, HALTED, STOPPED][run as usize],
        if0,
        ie0,
        handlers,
        sp_sel,
    });
    let world = std::cell::RefCell::new(w);
    run_generated(rec, "gen", cases, strat, case_json, |c, rec, counting| {
        if counting {
            rec.class("generated-sequence", 1);
            rec.current(&case_json(c).to_string());
        }
        exec(&mut world.borrow_mut(), c, rec, counting)
    });
}

fn replay(case: &Value, rec: &mut Rec) {
    let c: Case = match case.get("case").cloned().and_then(|v| serde_json::from_value(v).ok()) {
        Some(c) => c,
        None => {
            rec.inconclusive("replay case is not a C08 sequence");
            return;
        }
    };
    let mut w = new_world();
    rec.current(&case.to_string());
    if let Err(f) = exec(&mut w, &c, rec, true) {
        rec.violation(&f.sig, case_json(&c), f.detail);
    }
}
