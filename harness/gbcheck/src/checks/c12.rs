//! C12 — MBC1/MBC3 bank selection follows the controller's register protocol.

use super::common::*;
use crate::engine::*;
use crate::mach::{i, Emu};
use crate::rom::{ram_bytes_for_code, rom_banks_for_code, RomImage};
use models::mbc::{kind_for_type, Kind, Mbc};
use proptest::prelude::*;
use serde_json::{json, Value};

pub static DEF: CheckDef = CheckDef {
    id: "C12",
    run,
    replay,
    rule: "for each supported cartridge type (0x00, 0x01-0x03, 0x11-0x13) x ROM size code (0-8, 0x52-0x54) x RAM size code (0-5): (a) the complete product of controller register values (MBC1: 32 x 4 x 2, MBC3: 128 x 16, each value written at several addresses of its register's range), (b) proptest histories of up to 40 (address < 0x8000, value) writes biased to the register-range edges and to the values 0, 1, 0x1F, 0x20, 0x21, 0x3F, 0x40, 0x60, 0x7F, 0x80, 0xFF. After every write the bank visible at 0x0000, at 0x4000-0x7FFF (ROM banks carry their index; through data reads and through the instruction-fetch view) and at 0xA000-0xBFFF (RAM banks carry theirs) is compared with the reference controller model. (c) executed view: on six cartridges, proptest histories of up to 29 register writes; after every write the CPU of the interpreter build and of the jit build executes LD BC,nn at 0x3FFE and LD B,n at 0x3FFF, whose last operand byte is the first byte of the bank mapped at 0x4000 (its stamp) - the same two addresses again and again, the translation cache staying warm across the bank switches - and B must be the stamp of the bank the protocol makes visible; and across a restart of the translation area (C03's restart probe: bank 1 selected and executed at the address whose bank-2 block made the area restart) the code that runs must be bank 1's. Non-trivial = history that selects value 0, a multiple of 0x20, mode 1 or a bank beyond the ROM size; distinct by hash of (configuration, history).",
    assumptions: &[
        "models::mbc (register protocol from the controller documentation); set-valued where documentation differs: MBC1 mode 1 may or may not apply the upper bits at 0x4000-0x7FFF",
        "RAM enable is not asserted; for 2 KiB RAM the window must show the same 2 KiB four times; RAM bank contents are asserted for RAM sizes of at least one 8 KiB bank; MBC3 RTC register selections (0x4000-0x5FFF value >= 4) suspend the RAM-bank assertion",
        "for 72/80/96-bank ROMs only selections below the bank count are asserted",
    ],
    required_classes: &["value-zero", "multiple-of-0x20", "mode-1", "beyond-size", "mbc3", "rom-only", "executed-view", "executed-view-warm-cache-across-bank-switches", "executed-view-after-restart"],
    exhaustive: false,
};

const TYPES: [u8; 7] = [0x00, 0x01, 0x02, 0x03, 0x11, 0x12, 0x13];
const ROM_CODES: [u8; 12] = [0, 1, 2, 3, 4, 5, 6, 7, 8, 0x52, 0x53, 0x54];
const RAM_CODES: [u8; 6] = [0, 1, 2, 3, 4, 5];

pub struct Cart {
    pub m: i::M,
    pub model: Mbc,
    pub banks: usize,
    pub ram_bytes: usize,
    pub cfg: (u8, u8, u8),
}

pub fn make_cart(t: u8, rc: u8, rac: u8) -> Cart {
    let mut rom = RomImage::new(t, rc, rac, 0x00);
    rom.stamp_banks();
    let banks = rom_banks_for_code(rc).unwrap();
    let ram_bytes = ram_bytes_for_code(rac).unwrap();
    let mut m = i::M::new(&rom);
    // stamp RAM banks with their index
    let len = m.core.memory.cart_ram.len();
    for b in 0..len / 0x2000 {
        m.core.memory.cart_ram[b * 0x2000] = b as u8;
        m.core.memory.cart_ram[b * 0x2000 + 1] = 0x5a ^ b as u8;
    }
    let model = Mbc::new(kind_for_type(t).unwrap(), banks, ram_bytes);
    Cart { m, model, banks, ram_bytes, cfg: (t, rc, rac) }
}

fn case_json(cfg: (u8, u8, u8), hist: &[(u16, u8)]) -> Value {
    json!({"kind": "mbc", "type": cfg.0, "rom_code": cfg.1, "ram_code": cfg.2, "writes": hist})
}

/// compare visible banks with the model; returns a failure description
pub fn probe(c: &mut Cart) -> Result<(), (String, String)> {
    // bank 0 at 0x0000
    let b0 = c.m.read(0x0000) as usize | ((c.m.read(0x0001) ^ 0xa5) as usize) << 8;
    if b0 != 0 {
        return Err(("bank0".into(), format!("0x0000-0x3FFF shows bank {} instead of bank 0", b0)));
    }
    let vis = c.m.read(0x4000) as usize | ((c.m.read(0x4001) ^ 0xa5) as usize) << 8;
    let vis_end = c.m.read(0x7ffe) as usize | ((c.m.read(0x7fff) ^ 0xa5) as usize) << 8;
    let raw = c.model.rom_bank_high_raw();
    let pow2 = c.banks.is_power_of_two();
    let assertable = pow2 || raw.iter().all(|b| *b < c.banks);
    if assertable {
        let want: Vec<usize> = raw.iter().map(|b| b % c.banks).collect();
        if !want.contains(&vis) || vis_end != vis {
            let kind = match c.model.kind {
                Kind::RomOnly => "romonly",
                Kind::Mbc1 => "mbc1",
                Kind::Mbc3 => "mbc3",
            };
            let why = if c.model.rom_low == 0 {
                "zero"
            } else if raw.iter().any(|b| *b >= c.banks) {
                "reduce"
            } else if c.model.mode {
                "mode1"
            } else {
                "select"
            };
            return Err((
                format!("rom-{}-{}", kind, why),
                format!(
                    "0x4000-0x7FFF shows bank {} (end of region: {}), controller protocol gives {:?} (registers: low={:#x} upper={} mode={}, {} banks)",
                    vis, vis_end, want, c.model.rom_low, c.model.upper, c.model.mode as u8, c.banks
                ),
            ));
        }
    }
    // instruction fetch must see the same bank as data reads (the fetch view has its own bank arithmetic)
    {
        let p = &c.m.core.memory as *const gbint::mem::MemoryAreas;
        let fetched = guarded(|| {
            let s = gbint::mem::get_executable_memory_slice(0x4000, p);
            (s[0], s[1], s.len())
        });
        match fetched {
            Err(msg) => {
                return Err(("fetch-view-panic".into(), format!("instruction fetch at 0x4000 panicked with registers low={:#x} upper={} mode={} on a {}-bank ROM: {}", c.model.rom_low, c.model.upper, c.model.mode as u8, c.banks, msg)));
            }
            Ok((b0, b1, len)) => {
                let fb = b0 as usize | ((b1 ^ 0xa5) as usize) << 8;
                if fb != vis || len != 0x4000 {
                    return Err(("fetch-view-bank".into(), format!("instruction fetch at 0x4000 sees bank {} ({} bytes), data reads see bank {} (registers: low={:#x} upper={} mode={}, {} banks)", fb, len, vis, c.model.rom_low, c.model.upper, c.model.mode as u8, c.banks)));
                }
            }
        }
    }
    if c.ram_bytes == 2048 {
        // a 2 KiB RAM is smaller than the window: "reduced to the cartridge's actual size"
        // means the window shows the one 2 KiB RAM four times, whatever bank is selected
        let k = (c.model.rom_low as u16 * 37 + c.model.upper as u16 * 5) & 0x7ff;
        let v = 0x40 | (c.model.rom_low ^ (c.model.upper << 3));
        c.m.write(0xa000 + k, v);
        for mirror in [0x0800u16, 0x1000, 0x1800] {
            let got = c.m.read(0xa000 + k + mirror);
            if got != v {
                return Err(("ram-2k-mirror".into(), format!("2 KiB cartridge RAM: {:#04x} written to {:#06x} reads back as {:#04x} at {:#06x} (the window must show the same 2 KiB)", v, 0xa000 + k, got, 0xa000 + k + mirror)));
            }
        }
    }
    if let Some(rb) = c.model.ram_bank() {
        let got = c.m.read(0xa000) as usize;
        let got2 = (c.m.read(0xa001) ^ 0x5a) as usize;
        if got != rb || got2 != rb {
            return Err((
                format!("ram-{:?}", c.model.kind).to_lowercase(),
                format!("0xA000-0xBFFF shows RAM bank {} / {}, controller protocol gives {} (upper={} mode={}, {} KiB RAM)", got, got2, rb, c.model.upper, c.model.mode as u8, c.ram_bytes / 1024),
            ));
        }
    }
    Ok(())
}

fn classify(rec: &mut Rec, c: &Cart, hist: &[(u16, u8)]) -> bool {
    let mut nt = false;
    for (a, v) in hist {
        if (0x2000..0x4000).contains(a) {
            if *v == 0 {
                rec.class("value-zero", 1);
                nt = true;
            } else if *v & 0x1f == 0 {
                rec.class("multiple-of-0x20", 1);
                nt = true;
            }
            if (*v as usize & 0x7f) >= c.banks {
                rec.class("beyond-size", 1);
                nt = true;
            }
        }
        if *a >= 0x6000 && *v & 1 == 1 && c.model.kind == Kind::Mbc1 {
            rec.class("mode-1", 1);
            nt = true;
        }
    }
    match c.model.kind {
        Kind::Mbc3 => rec.class("mbc3", 1),
        Kind::RomOnly => rec.class("rom-only", 1),
        Kind::Mbc1 => rec.class("mbc1", 1),
    }
    nt
}

fn apply(c: &mut Cart, hist: &[(u16, u8)]) -> Result<(), (String, String)> {
    for (a, v) in hist {
        c.m.write(*a, *v);
        c.model.write(*a, *v);
        probe(c)?;
    }
    Ok(())
}

fn reset(c: &mut Cart) {
    c.m.reset_devices();
    c.model = Mbc::new(c.model.kind, c.banks, c.ram_bytes);
}

fn run(rec: &mut Rec) {
    let mut configs = Vec::new();
    for t in TYPES {
        for rc in ROM_CODES {
            for rac in RAM_CODES {
                configs.push((t, rc, rac));
            }
        }
    }
    let thorough = rec.ctx.tier == Tier::Thorough;
    for (idx, cfg) in configs.iter().enumerate() {
        if !rec.ctx.mine(idx) || rec.too_many() {
            continue;
        }
        let mut c = make_cart(cfg.0, cfg.1, cfg.2);
        rec.current(&case_json(*cfg, &[]).to_string());
        if let Err((sig, d)) = probe(&mut c) {
            rec.violation(&format!("initial-{}", sig), case_json(*cfg, &[]), d);
            continue;
        }
        // (a) register product
        let lows: Vec<u8> = match c.model.kind {
            Kind::Mbc3 => (0..=0x7f).chain([0x80u8, 0xff]).collect(),
            _ => (0..=0x1f).chain([0x20u8, 0x21, 0x3f, 0x40, 0x60, 0x7f, 0x80, 0xe1, 0xff]).collect(),
        };
        let uppers: Vec<u8> = match c.model.kind {
            Kind::Mbc3 => vec![0, 1, 2, 3, 4, 7, 8, 0x0c, 0xff, 2],
            _ => vec![0, 1, 2, 3, 0xff, 0x04],
        };
        let mut n = 0u64;
        for (ui, up) in uppers.iter().enumerate() {
            for mode in [0u8, 1, 0xfe, 0xff] {
                for (li, low) in lows.iter().enumerate() {
                    let hist = vec![
                        ([0x4000u16, 0x5fff, 0x4abc][(ui + li) % 3], *up),
                        ([0x6000u16, 0x7fff, 0x6f00][li % 3], mode),
                        ([0x2000u16, 0x3fff, 0x2100, 0x3000][li % 4], *low),
                        ([0x0000u16, 0x1fff][li % 2], if li % 3 == 0 { 0x0a } else { 0x00 }),
                    ];
                    reset(&mut c);
                    n += 1;
                    if classify(rec, &c, &hist) {
                        rec.nontrivial(fnv(format!("{:?}{:?}", cfg, hist).as_bytes()));
                    }
                    if let Err((sig, d)) = apply(&mut c, &hist) {
                        rec.violation(&sig, case_json(*cfg, &hist), d);
                        break;
                    }
                }
            }
        }
        rec.eval(n);
        rec.class("register-product", n);
        rec.sample(|| case_json(*cfg, &[(0x2000, 0x20), (0x4000, 1), (0x6000, 1)]));
        // (b) generated histories
        let cases = if thorough { 400 } else { 25 };
        let edge_addr = prop_oneof![
            Just(0x0000u16), Just(0x1fff), Just(0x2000), Just(0x3fff), Just(0x4000), Just(0x5fff), Just(0x6000), Just(0x7fff),
            0u16..0x8000
        ];
        let edge_val = prop_oneof![
            Just(0u8), Just(1), Just(0x1f), Just(0x20), Just(0x21), Just(0x3f), Just(0x40), Just(0x60), Just(0x7f), Just(0x80), Just(0xff), Just(0x0a), Just(3),
            any::<u8>()
        ];
        let strat = prop::collection::vec((edge_addr, edge_val), 0..40);
        let cfg2 = *cfg;
        // proptest closures need Fn-compatible state: keep the cart in a RefCell-free way by rebuilding via reset
        let cart = std::cell::RefCell::new(c);
        fn hist_json(h: &Vec<(u16, u8)>) -> Value {
            json!({ "writes": h })
        }
        run_generated(rec, &format!("hist{}", idx), cases, strat, hist_json, |hist, rec, counting| {
            let mut c = cart.borrow_mut();
            reset(&mut c);
            if counting {
                rec.eval(1);
                rec.class("generated-history", 1);
                if classify(rec, &c, hist) {
                    rec.nontrivial(fnv(format!("{:?}{:?}", cfg2, hist).as_bytes()));
                }
            }
            match apply(&mut c, hist) {
                Ok(()) => Ok(()),
                Err((sig, d)) => Err(Fail::new(sig, format!("{} [cartridge type {:#04x}, ROM code {:#04x}, RAM code {}]", d, cfg2.0, cfg2.1, cfg2.2))),
            }
        });
        // attach the configuration to violations recorded by run_generated
        for v in rec.res.violations.iter_mut() {
            if v.case.get("type").is_none() {
                if let Some(w) = v.case.get("writes").cloned() {
                    v.case = json!({"kind": "mbc", "type": cfg2.0, "rom_code": cfg2.1, "ram_code": cfg2.2, "writes": w});
                }
            }
        }
    }
    exec_view_layer(rec);
    // executed view across a restart of the translation area (C03's restart probe): bank 1
    // selected and executed at the address whose bank-2 block made the area restart
    {
        let step = rec.ctx.tier.pick(0x40000usize, 0x8000);
        let mut k = 0usize;
        let mut target = 0x480000usize;
        while target < 0x7f0000 {
            if rec.ctx.mine(k) && !rec.too_many() {
                exec_view_after_restart(rec, target);
            }
            k += 1;
            target += step;
        }
    }
}

fn exec_view_after_restart(rec: &mut Rec, target: usize) {
    let case = json!({"kind": "mbc-exec-view-after-restart", "target": target});
    rec.current(&case.to_string());
    rec.eval(1);
    rec.class("executed-view-after-restart", 1);
    if let Ok(p) = crate::checks::c03::restart_probe(target) {
        let mut pairs = vec![(0x4000u16, &p.largest)];
        if let Some(a) = &p.after_restart {
            pairs.push((p.last_filler_pc, a));
            rec.nontrivial(fnv(case.to_string().as_bytes()));
        }
        for (pc, (oj, oi)) in pairs {
            if oj.regs != oi.regs || oj.serial != oi.serial {
                rec.violation("exec-view-after-restart", case.clone(), format!("bank 1 selected (register 0x2000 <- 1) and executed at {:#06x} with {} bytes of the translation area in use: the jit build ran other code than the bank-1 code the interpreter build ran (jit {:?} / sent {:02x?}, interpreter {:?} / sent {:02x?})", pc, p.level, oj.regs, oj.serial, oi.regs, oi.serial));
                break;
            }
        }
    }
}

// ---------------------------------------------------------------------------
// executed view: what the CPU actually fetches from the switchable bank, in both builds

/// Bank 0 of the stamped ROM ends in `01 06`: from PC = 0x3FFE that is LD BC,nn whose high
/// operand byte is the first byte of the bank mapped at 0x4000 (its stamp), from PC = 0x3FFF
/// it is LD B,n with the same byte as operand. After any history of register writes B must be
/// the stamp of the bank the protocol makes visible - in the interpreter build and in the jit
/// build, where the same address is executed again and again with the translation cache warm.
fn exec_view(cfg: (u8, u8, u8), hist: &[(u16, u8)], rec: Option<&mut Rec>) -> Result<(), (String, String)> {
    use crate::mach::{j, Regs};
    let mut rom = RomImage::new(cfg.0, cfg.1, cfg.2, 0x00);
    rom.stamp_banks();
    rom.bytes[0x3ffe] = 0x01;
    rom.bytes[0x3fff] = 0x06;
    rom.fix_checksum();
    let banks = rom_banks_for_code(cfg.1).unwrap();
    let ram_bytes = ram_bytes_for_code(cfg.2).unwrap();
    let mut model = Mbc::new(kind_for_type(cfg.0).unwrap(), banks, ram_bytes);
    let mut mi = i::M::new(&rom);
    let mut mj = j::M::new(&rom);
    let mut switches = 0u32;
    let mut last: Option<usize> = None;
    for (k, (a, v)) in hist.iter().enumerate() {
        mi.write(*a, *v);
        mj.write(*a, *v);
        model.write(*a, *v);
        let raw = model.rom_bank_high_raw();
        if !(banks.is_power_of_two() || raw.iter().all(|b| *b < banks)) {
            continue;
        }
        let want: Vec<u8> = raw.iter().map(|b| (b % banks) as u8).collect();
        if let Some(w) = want.first() {
            if last.is_some() && last != Some(*w as usize) {
                switches += 1;
            }
            last = Some(*w as usize);
        }
        for (name, m) in [("interpreter build", &mut mi as &mut dyn Emu), ("jit build", &mut mj as &mut dyn Emu)] {
            for pc in [0x3ffeu16, 0x3fff] {
                m.set_regs(&Regs { af: 0x0100, bc: 0xeeee, de: 0, hl: 0, sp: 0xdff0, pc: pc as u32, cycles: 0 });
                m.set_ime(crate::mach::IME_DISABLED);
                m.set_run_state(crate::mach::RUN);
                let is_jit = m.is_jit();
                let r = guarded(|| if is_jit { m.step_block() } else { m.step_update() });
                if let Err(msg) = r {
                    return Err(("exec-view-panic".into(), format!("executing at {:#06x} after write {} of the history panicked in the {}: {}", pc, k, name, msg)));
                }
                let b = (m.regs().bc >> 8) as u8;
                if !want.contains(&b) {
                    return Err((
                        format!("exec-view-{}", if is_jit { "jit" } else { "interpreter" }),
                        format!("after write {} ({:#06x} <- {:#04x}) the {} executing {} at {:#06x} fetched its operand byte at 0x4000 from bank {}; the protocol makes bank {:?} visible (registers: low={:#x} upper={} mode={}, {} banks)", k, a, v, name, if pc == 0x3ffe { "LD BC,nn" } else { "LD B,n" }, pc, b, want, model.rom_low, model.upper, model.mode as u8, banks),
                    ));
                }
            }
        }
    }
    if let Some(rec) = rec {
        rec.eval(hist.len() as u64 * 4);
        rec.class("executed-view", 1);
        if switches >= 2 {
            rec.class("executed-view-warm-cache-across-bank-switches", 1);
            rec.nontrivial(fnv(format!("x{:?}{:?}", cfg, hist).as_bytes()));
        }
    }
    Ok(())
}

const EXEC_CFGS: [(u8, u8, u8); 6] = [(0x01, 0x05, 0), (0x13, 0x06, 3), (0x01, 0x01, 0), (0x03, 0x04, 3), (0x11, 0x02, 0), (0x01, 0x52, 0)];

fn exec_view_json(cfg: (u8, u8, u8), hist: &[(u16, u8)]) -> Value {
    json!({"kind": "mbc-exec-view", "type": cfg.0, "rom_code": cfg.1, "ram_code": cfg.2, "writes": hist})
}

fn exec_view_layer(rec: &mut Rec) {
    let cases = rec.ctx.tier.pick(12u32, 400);
    let val = prop_oneof![Just(0u8), Just(1), Just(2), Just(0x1f), Just(0x20), Just(0x21), Just(0x3f), Just(0x40), Just(0x7f), Just(0x80), Just(0xff), Just(3), any::<u8>()];
    let addr = prop_oneof![3 => 0x2000u16..0x4000, 1 => 0x4000u16..0x6000, 1 => 0x6000u16..0x8000, 1 => 0u16..0x2000];
    let strat = (0usize..EXEC_CFGS.len(), prop::collection::vec((addr, val), 1..30));
    fn to_json(v: &(usize, Vec<(u16, u8)>)) -> Value {
        exec_view_json(EXEC_CFGS[v.0], &v.1)
    }
    run_generated(rec, "execview", cases, strat, to_json, |(ci, hist), rec, counting| {
        let cfg = EXEC_CFGS[*ci];
        if counting {
            rec.current(&exec_view_json(cfg, hist).to_string());
        }
        match exec_view(cfg, hist, if counting { Some(rec) } else { None }) {
            Ok(()) => Ok(()),
            Err((sig, d)) => Err(Fail::new(sig, format!("{} [cartridge type {:#04x}, ROM code {:#04x}, RAM code {}]", d, cfg.0, cfg.1, cfg.2))),
        }
    });
}

fn replay(case: &Value, rec: &mut Rec) {
    if case.get("kind").and_then(|k| k.as_str()) == Some("mbc-exec-view-after-restart") {
        exec_view_after_restart(rec, (case.get("target").and_then(|v| v.as_u64()).unwrap_or(0x500000) as usize).min(0x7f0000));
        return;
    }
    if case.get("kind").and_then(|k| k.as_str()) == Some("mbc-exec-view") {
        let g = |k: &str| case.get(k).and_then(|v| v.as_u64()).unwrap_or(0) as u8;
        let cfg = (g("type"), g("rom_code"), g("ram_code"));
        let hist: Vec<(u16, u8)> = case.get("writes").and_then(|w| serde_json::from_value(w.clone()).ok()).unwrap_or_default();
        if kind_for_type(cfg.0).is_none() || rom_banks_for_code(cfg.1).is_none() || ram_bytes_for_code(cfg.2).is_none() {
            rec.inconclusive("replay case names an unsupported configuration");
            return;
        }
        rec.current(&case.to_string());
        if let Err((sig, d)) = exec_view(cfg, &hist, Some(rec)) {
            rec.violation(&sig, case.clone(), d);
        }
        return;
    }
    let t = case.get("type").and_then(|v| v.as_u64()).unwrap_or(1) as u8;
    let rc = case.get("rom_code").and_then(|v| v.as_u64()).unwrap_or(2) as u8;
    let rac = case.get("ram_code").and_then(|v| v.as_u64()).unwrap_or(3) as u8;
    let hist: Vec<(u16, u8)> = case
        .get("writes")
        .and_then(|w| serde_json::from_value(w.clone()).ok())
        .unwrap_or_default();
    if kind_for_type(t).is_none() || rom_banks_for_code(rc).is_none() || ram_bytes_for_code(rac).is_none() {
        rec.inconclusive("replay case names an unsupported configuration");
        return;
    }
    let mut c = make_cart(t, rc, rac);
    rec.eval(1);
    if let Err((sig, d)) = probe(&mut c) {
        rec.violation(&format!("initial-{}", sig), case.clone(), d);
        return;
    }
    if let Err((sig, d)) = apply(&mut c, &hist) {
        rec.violation(&sig, case.clone(), d);
    }
}

#[allow(dead_code)]
fn _u() {
    let _ = guarded(|| 0);
}
