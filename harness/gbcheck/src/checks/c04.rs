//! C04 — enabling the recompiler does not change what a guest program computes.

use super::common::*;
use crate::engine::*;
use crate::mach::{diff_state, i, j, Emu, RUN};
use crate::prog::{assemble, prog_strategy, ProgInfo, ProgSpec};
use proptest::prelude::*;
use serde_json::{json, Value};
use std::collections::HashMap;

pub static DEF: CheckDef = CheckDef {
    id: "C04",
    run,
    replay,
    rule: "proptest-generated structured programs (DESIGN.md appendix A: init code, a main loop of 1-40 fragments - ALU chains, memory read/write through HL/BC/DE/LDH/(nn)/(C) incl. reads of DIV/TIMA/IF/STAT/LY, counted JR/JP loops, CALL/CALL cc/RET cc/RST, balanced PUSH/POP, JP HL, far calls through bank-0 trampolines into banks whose code differs at the same address, routines copied to work/high RAM, OAM DMA with an HRAM wait loop, timer/STAT/IE programming, EI;HALT and STOP with a timer wake-up, DI sections, serial writes, fall-through into the switchable bank - plus five generated interrupt handlers) are assembled into an MBC1 ROM and run on two machines, one built with the jit feature and one without, both advanced block by block (Core::run_code_block while running, Core::update while halted/stopped) for a fixed number of steps. After every step all CPU/device scalars (registers, IME, run state, IF/IE, bank registers, timer incl. divider phase, LCD position, STAT, DMA progress, serial registers) and the ordered bus writes of that step are compared; the complete memory incl. both frame buffers and the serial log every 64 steps and at the end. A cache-pressure family (a run of one-byte instructions entered one byte later on every iteration, so that every entry is a new block of up to 16 K instructions and the 8 MiB translation area fills up and is recycled several times) is run the same way. Non-trivial = run in which at least one interrupt was dispatched and at least one translated block executed twice (measured); distinct by hash of the program.",
    assumptions: &[
        "the interpreter build is the reference (its semantics are pinned by C05-C08)",
        "a run ends (counted as left-domain) when the interpreter refuses an instruction (runaway stack executing data) and is excluded (counted) when a block fetched from 0x4000-0x7FFF writes below 0x8000 (known finding C01 jit-self-bank-switch)",
        "programs are generated so that stores below 0x8000 only come from bank-0 trampolines",
    ],
    required_classes: &["cache-pressure", "irq-dispatched", "block-reused", "uses-halt", "uses-dma", "ram-code", "bank-switch", "timer-irq", "lcd-irq", "serial", "far-code-under-two-banks"],
    exhaustive: false,
};

pub fn case_json(p: &ProgSpec, steps: u32) -> Value {
    json!({"kind": "program", "steps": steps, "spec": p})
}

pub struct RunStats {
    pub dispatches: u32,
    pub reused_blocks: u32,
    pub halted_steps: u32,
    pub steps_done: u32,
    pub left_domain: bool,
    pub excluded_known: bool,
    pub far_banks: HashMap<u16, u8>,
    pub far_two_banks: bool,
    pub serial: Vec<u8>,
}

pub fn step_block_mode(m: &mut dyn Emu) {
    if m.run_state() == RUN {
        m.step_block()
    } else {
        m.step_update()
    }
}

fn first_scalar_diff(a: &dyn Emu, b: &dyn Emu) -> Option<String> {
    let (sa, sb) = (a.scalars(), b.scalars());
    for ((n, x), (_, y)) in sa.iter().zip(sb.iter()) {
        if x != y {
            return Some(format!("{}: jit {:#x}, interpreter {:#x}", n, x, y));
        }
    }
    None
}

/// run one program on both builds; Err = divergence
pub fn run_pair(spec: &ProgSpec, steps: u32, st: &mut RunStats) -> CaseResult {
    let (rom, _info) = assemble(spec);
    run_pair_rom(&rom, steps, st)
}

/// A program that enters a long run of one-byte instructions in bank 1 one byte
/// later on every iteration: every entry is a new block of up to 16 K
/// instructions, so the translation area (8 MiB) fills up within a few dozen
/// iterations. It also transmits a byte per iteration.
pub fn pressure_rom(op: u8) -> crate::rom::RomImage {
    let mut rom = crate::rom::RomImage::new(0x03, 0x02, 0x03, 0x00);
    for a in 0x4000..0x7fff {
        rom.bytes[0x4000 + (a - 0x4000)] = op;
    }
    rom.bytes[0x7fff] = 0xc9;
    let main: [u8; 21] = [0x31, 0xf0, 0xdf, 0x21, 0x00, 0x40, 0xcd, 0x00, 0x02, 0x23, 0x3e, 0x41, 0xe0, 0x01, 0x3e, 0x81, 0xe0, 0x02, 0x18, 0xf2, 0x00];
    rom.bytes[0x150..0x150 + main.len()].copy_from_slice(&main);
    rom.bytes[0x200] = 0xe9;
    rom.bytes[0x100..0x104].copy_from_slice(&[0x00, 0xc3, 0x50, 0x01]);
    rom.fix_checksum();
    rom
}

/// Cache pressure with bank switching and revisits: every bank 1..7 holds a run of
/// a different one-byte instruction; each iteration selects a bank (2,3,..,7,1),
/// enters the run at HL (which advances after bank 1) and then at the fixed
/// address 0x4000 again. The translation area is recycled every few iterations,
/// with different banks mapped at that moment, and addresses translated before a
/// restart are executed again after it - under the same and under other banks.
pub fn pressure_rom2() -> crate::rom::RomImage {
    pressure_rom_ops([0x3cu8, 0x0c, 0x14, 0x1c, 0x3d, 0x0d, 0x15], 0)
}

/// the same program with the run of every bank ending at a different offset (97 bytes
/// earlier from bank to bank): executing one bank's translation under another bank shows in
/// the cycle count of the block, not only in the registers
pub fn pressure_rom3() -> crate::rom::RomImage {
    pressure_rom_ops([0x3cu8, 0x0c, 0x14, 0x1c, 0x3d, 0x0d, 0x15], 97)
}

/// the same program with every bank's run transmitting the bank's own byte before it returns
/// (and no transmission from the main loop): whichever bank's code really runs shows on the
/// serial stream
pub fn pressure_rom4() -> crate::rom::RomImage {
    let mut rom = pressure_rom_ops([0x3cu8, 0x0c, 0x14, 0x1c, 0x3d, 0x0d, 0x15], 0);
    for bank in 1..8usize {
        let tail = [0x3e, 0x30 + bank as u8, 0xe0, 0x01, 0x3e, 0x81, 0xe0, 0x02, 0xc9];
        let at = bank * 0x4000 + 0x4000 - tail.len();
        rom.bytes[at..at + tail.len()].copy_from_slice(&tail);
    }
    // the main loop's own transmission becomes NOPs
    for a in 0x150..0x150 + 46 {
        if rom.bytes[a..a + 8] == [0x3e, 0x41, 0xe0, 0x01, 0x3e, 0x81, 0xe0, 0x02] {
            for b in &mut rom.bytes[a..a + 8] {
                *b = 0x00;
            }
            break;
        }
    }
    rom.fix_checksum();
    rom
}

fn pressure_rom_ops(ops: [u8; 7], shorten: usize) -> crate::rom::RomImage {
    let mut rom = crate::rom::RomImage::new(0x03, 0x02, 0x03, 0x00);
    for bank in 1..8usize {
        let end = 0x3fff - shorten * (bank - 1);
        for a in 0..0x4000 {
            rom.bytes[bank * 0x4000 + a] = if a < end { ops[bank - 1] } else { 0xc9 };
        }
    }
    let main: [u8; 46] = [
        0x31, 0xf0, 0xdf, 0x21, 0x00, 0x40, 0x06, 0x02, // LD SP; LD HL,0x4000; LD B,2
        0x78, 0xea, 0x00, 0x20, 0xcd, 0x00, 0x02, 0xcd, 0x00, 0x40, // loop: bank := B; CALL (JP HL); CALL 0x4000
        0x78, 0xfe, 0x01, 0x20, 0x05, 0x23, 0x06, 0x02, 0x18, 0x08, // B == 1 ? INC HL, B := 2
        0x04, 0x78, 0xfe, 0x08, 0x20, 0x02, 0x06, 0x01, // else INC B, 8 -> 1
        0x3e, 0x41, 0xe0, 0x01, 0x3e, 0x81, 0xe0, 0x02, // transmit 'A'
        0x18, 0xda, // JR loop
    ];
    rom.bytes[0x150..0x150 + main.len()].copy_from_slice(&main);
    rom.bytes[0x200] = 0xe9;
    rom.bytes[0x100..0x104].copy_from_slice(&[0x00, 0xc3, 0x50, 0x01]);
    rom.fix_checksum();
    rom
}

pub fn run_pair_rom(rom: &crate::rom::RomImage, steps: u32, st: &mut RunStats) -> CaseResult {
    let mut mj = j::M::new(rom);
    let mut mi = i::M::new(rom);
    mj.fill_ram(0xc04);
    mi.fill_ram(0xc04);
    let _ = mj.serial_take();
    let _ = mi.serial_take();
    let mut visits: HashMap<(usize, u16), u32> = HashMap::new();
    for step in 0..steps {
        let pc0 = mi.regs().pc as u16;
        let running = mi.run_state() == RUN;
        if running && !crate::refmach::executable(pc0) {
            // runaway: executing from echo RAM, I/O ... is outside the domain
            st.left_domain = true;
            break;
        }
        if running && pc0 < 0x8000 {
            let key = (if pc0 < 0x4000 { 0 } else { mi.rom_bank() }, pc0);
            let c = visits.entry(key).or_insert(0);
            *c += 1;
            if *c == 2 {
                st.reused_blocks += 1;
            }
            if (0x4000..0x8000).contains(&pc0) {
                let bank = mi.rom_bank() as u8;
                match st.far_banks.get(&pc0) {
                    Some(b) if *b != bank => st.far_two_banks = true,
                    None => {
                        st.far_banks.insert(pc0, bank);
                    }
                    _ => {}
                }
            }
        }
        if !running {
            st.halted_steps += 1;
        }
        mi.trace_enable(true);
        let _ = mi.trace_take();
        let ri = guarded(|| step_block_mode(&mut mi));
        mi.trace_enable(false);
        let wi: Vec<(u16, u8)> = mi.trace_take().iter().filter(|t| t.0 == 1).map(|t| (t.1, t.2)).collect();
        if ri.is_err() {
            st.left_domain = true;
            break;
        }
        if (0x4000..0x8000).contains(&pc0) && running && wi.iter().any(|(a, _)| *a < 0x8000) {
            st.excluded_known = true;
            break;
        }
        mj.trace_enable(true);
        let _ = mj.trace_take();
        let rj = guarded(|| step_block_mode(&mut mj));
        mj.trace_enable(false);
        let wj: Vec<(u16, u8)> = mj.trace_take().iter().filter(|t| t.0 == 1).map(|t| (t.1, t.2)).collect();
        if let Err(msg) = rj {
            return Err(Fail::new("jit-panic", format!("step {} (block at {:#06x}): the jit build panicked where the interpreter build ran on: {}", step, pc0, msg)));
        }
        st.steps_done = step + 1;
        let ra = mi.regs();
        if ra.cycles == 5 && [0x40u32, 0x48, 0x50, 0x58, 0x60, 0x00].contains(&ra.pc) {
            st.dispatches += 1;
        }
        if let Some(d) = first_scalar_diff(&mj, &mi) {
            let what = d.split(':').next().unwrap_or("state").to_string();
            return Err(Fail::new(format!("diverge-{}", what), format!("step {} (block at {:#06x}, {}): {}", step, pc0, if running { "running" } else { "suspended" }, d)));
        }
        if wj != wi {
            return Err(Fail::new("diverge-bus-writes", format!("step {} (block at {:#06x}): bus writes differ: jit {:x?}, interpreter {:x?}", step, pc0, &wj[..wj.len().min(8)], &wi[..wi.len().min(8)])));
        }
        if step % 64 == 63 || step + 1 == steps {
            if let Some(d) = diff_state(&mj, &mi, &[]) {
                return Err(Fail::new("diverge-memory", format!("step {} (block at {:#06x}): jit vs interpreter: {}", step, pc0, d)));
            }
            let (sj, si) = (mj.serial_take(), mi.serial_take());
            if sj != si {
                return Err(Fail::new("diverge-serial", format!("step {}: serial output differs: jit {:x?}, interpreter {:x?}", step, sj, si)));
            }
            st.serial.extend(si);
        }
    }
    Ok(())
}

pub fn classify_prog(rec: &mut Rec, info: &ProgInfo, st: &RunStats) {
    if st.dispatches > 0 {
        rec.class("irq-dispatched", 1);
    }
    if st.reused_blocks > 0 {
        rec.class("block-reused", 1);
    }
    if info.uses_halt && st.halted_steps > 0 {
        rec.class("uses-halt", 1);
    }
    if info.uses_dma {
        rec.class("uses-dma", 1);
    }
    if info.uses_ram_code {
        rec.class("ram-code", 1);
    }
    if info.uses_far_call {
        rec.class("bank-switch", 1);
    }
    if info.uses_timer && st.dispatches > 0 {
        rec.class("timer-irq", 1);
    }
    if info.uses_stat && st.dispatches > 0 {
        rec.class("lcd-irq", 1);
    }
    if info.uses_serial {
        rec.class("serial", 1);
    }
    if st.far_two_banks {
        rec.class("far-code-under-two-banks", 1);
    }
    if st.left_domain {
        rec.class("left-domain", 1);
    }
    if info.uses_stop {
        rec.class("uses-stop", 1);
    }
}

pub fn new_stats() -> RunStats {
    RunStats { dispatches: 0, reused_blocks: 0, halted_steps: 0, steps_done: 0, left_domain: false, excluded_known: false, far_banks: HashMap::new(), far_two_banks: false, serial: vec![] }
}

fn exec(spec: &ProgSpec, steps: u32, rec: &mut Rec, counting: bool) -> CaseResult {
    let mut st = new_stats();
    let r = run_pair(spec, steps, &mut st);
    if counting {
        let (_, info) = assemble(spec);
        rec.eval(1);
        classify_prog(rec, &info, &st);
        if st.excluded_known {
            rec.excluded(1);
        }
        if st.dispatches > 0 && st.reused_blocks > 0 {
            rec.nontrivial(fnv(format!("{:?}", spec).as_bytes()));
        }
        rec.class("steps-executed", st.steps_done as u64);
        rec.sample(|| case_json(spec, steps));
    }
    r
}

fn run(rec: &mut Rec) {
    // translation-heavy: mprotect in this sandbox slows down with the number of
    // processes doing it, so only half of the shards take part
    if rec.ctx.nshards >= 4 && rec.ctx.shard % 2 == 1 {
        return;
    }
    // cache-pressure family: the translation area fills up and is recycled
    // (0xff stands for the bank-switching, revisiting variant)
    let ops: &[u8] = if rec.ctx.tier == Tier::Thorough { &[0xff, 0x3c, 0x27, 0x00, 0x87, 0x07, 0x04] } else { &[0xff, 0x3c, 0x27] };
    for (k, op) in ops.iter().enumerate() {
        let workers = if rec.ctx.nshards >= 4 { rec.ctx.nshards / 2 } else { rec.ctx.nshards };
        let my = if rec.ctx.nshards >= 4 { rec.ctx.shard / 2 } else { rec.ctx.shard };
        if k % workers == my {
            run_pressure(rec, *op, rec.ctx.tier.pick(1200, 12_000));
        }
    }
    let steps = rec.ctx.tier.pick(3000u32, 30_000);
    let cases = rec.ctx.tier.pick(160u32, 4000);
    let strat = prog_strategy(40);
    fn to_json(p: &ProgSpec) -> Value {
        case_json(p, 0)
    }
    run_generated(rec, "programs", cases, strat, to_json, |p, rec, counting| {
        if counting {
            rec.current(&case_json(p, steps).to_string());
        }
        exec(p, steps, rec, counting)
    });
    for v in rec.res.violations.iter_mut() {
        if let Some(m) = v.case.as_object_mut() {
            m.insert("steps".into(), json!(steps));
        }
    }
}

fn run_pressure(rec: &mut Rec, op: u8, steps: u32) {
    let case = json!({"kind": "cache-pressure", "op": op, "steps": steps});
    rec.current(&case.to_string());
    rec.eval(1);
    rec.class("cache-pressure", 1);
    let mut st = new_stats();
    let rom = if op == 0xff { pressure_rom2() } else { pressure_rom(op) };
    if let Err(f) = run_pair_rom(&rom, steps, &mut st) {
        rec.violation(&format!("pressure-{}", f.sig), case, f.detail);
    }
}

fn replay(case: &Value, rec: &mut Rec) {
    if case.get("kind").and_then(|k| k.as_str()) == Some("measure-emit") {
        // diagnostic: bytes of host code per guest instruction
        let mut worst = (0usize, 0u8, 0u8);
        for op in 0..=255u8 {
            if models::sm83::is_undefined(op) {
                continue;
            }
            for cb in 0..(if op == 0xcb { 256 } else { 1 }) {
                let mut rom = crate::rom::RomImage::new(0x03, 0x02, 0x03, 0x76);
                rom.bytes[0x200] = op;
                rom.bytes[0x201] = if op == 0xcb { cb as u8 } else { 0x10 };
                rom.bytes[0x202] = 0x20;
                let mut m = j::M::new(&rom);
                let before = m.cache_used();
                m.translate(0x200);
                let one = m.cache_used() - before;
                let before = m.cache_used();
                m.translate(0x203);
                let base = m.cache_used() - before;
                let n = one.saturating_sub(if models::sm83::is_terminator(op) { 0 } else { base });
                if n > worst.0 {
                    worst = (n, op, cb as u8);
                }
            }
        }
        eprintln!("worst emitted size: {} bytes for opcode {:#04x} {:#04x}", worst.0, worst.1, worst.2);
        return;
    }
    if case.get("kind").and_then(|k| k.as_str()) == Some("cache-pressure") {
        let op = case.get("op").and_then(|v| v.as_u64()).unwrap_or(0x3c) as u8;
        let steps = case.get("steps").and_then(|v| v.as_u64()).unwrap_or(1200) as u32;
        run_pressure(rec, op, steps);
        return;
    }
    let spec: ProgSpec = match case.get("spec").cloned().and_then(|v| serde_json::from_value(v).ok()) {
        Some(s) => s,
        None => {
            rec.inconclusive("replay case is not a program");
            return;
        }
    };
    let mut steps = case.get("steps").and_then(|v| v.as_u64()).unwrap_or(3000) as u32;
    if steps == 0 {
        steps = 3000;
    }
    rec.current(&case.to_string());
    if let Err(f) = exec(&spec, steps, rec, true) {
        rec.violation(&f.sig, case_json(&spec, steps), f.detail);
    }
}
