//! C01 — translated blocks have the same architectural effect as the interpreter.
//! C02 — and charge the same machine cycles (same engine, different scope).

use super::common::*;
use crate::engine::*;
use crate::mach::{diff_state, j, Emu, Regs, Snapshot};
use crate::rom::RomImage;
use models::sm83;
use proptest::prelude::*;
use serde::{Deserialize, Serialize};
use serde_json::{json, Value};

pub static DEF: CheckDef = CheckDef {
    id: "C01",
    run: run_c01,
    replay: replay_c01,
    rule: "layer 1: every register-only encoding, translated once and called for all (A, operand, F) / all 2^16 / all SP x e8 values; layer 2: every memory-accessing encoding (loads/stores via BC/DE/HL/HL+-, LDH, LD (nn), ALU (HL), INC/DEC (HL), LD (HL),n, CB (HL), PUSH/POP, CALL/RET/RETI/RST, LD (nn),SP) with the pointer register swept over all 65536 values (quick: every region boundary +-2 plus every 5th address); layer 3: proptest-generated straight-line blocks of 1..32 instructions closed by every kind of terminator, placed in bank 0, in a switchable bank, ending on the last byte of a region or running through 0x4000, from initial cycles 0 or 5; layer 4: every encoding (with three immediate values) behind context prefixes that bring the block's cycle count to every value around the nibble carries 16 and 32 - from pending counts 0 and 5, ending in a 1-, 2- or 3-cycle instruction - so that emitted code which depends on host flags or scratch registers left by the preceding instruction shows. layer 5: through the emulator's own dispatch (C03's restart probe): the translation area filled to every level from 4.5 MiB up, then a whole bank of DAA - the longest translation there is - and bank 1 at the address whose bank-2 block made the area restart, compared with the interpreter build on registers and serial bytes. layer 6: the generated blocks of layer 3 stepped by Core::run_code_block on the jit build and on the interpreter build (pending cycles 0 or 5 on entry), the complete state compared afterwards including the device positions - time lost on the way to the devices is I/O state. Each case of layers 1-4 runs interpreter::run_code_block on one core and translate+call on an identical core; compared: AF BC DE HL SP PC as full 32-bit fields, status class, ordered bus-write trace, all RAM/I-O/bank/DMA/serial state; every 8th translated call is entered through a shim that plants sentinels in the host's callee-saved registers and checks them and the stack pointer on return. Non-trivial = the block changes something besides PC; distinct by hash(block bytes, placement, initial registers) for generated cases, by construction for enumerated tuples.",
    assumptions: &[
        "the interpreter is the reference (itself pinned to the SM83 by C05/C06)",
        "F low nibble 0 and register fields <= 0xFFFF on entry; no undefined opcode inside a block",
        "cartridge MBC1+32KiB RAM, 8 ROM banks; unrelated ROM bytes are HALT",
        "status 0x80 left in r14b by BIT/rotate templates is treated like 0 by Core::run_code_block and is not a divergence",
    ],
    required_classes: &["l1-alu", "l2-ptr", "l3-blocks", "l4-context", "term-ret", "term-call", "term-jr", "term-halt", "place-bankN", "place-region-end", "ptr-io", "ptr-rom", "restart-probe", "l6-entered-with-pending-cycles"],
    exhaustive: false,
};

pub static DEF_C02: CheckDef = CheckDef {
    id: "C02",
    run: run_c02,
    replay: replay_c02,
    rule: "every defined encoding (501) as a one-instruction block (plus a fixed terminator when it is not one itself) x all 16 flag states (both outcomes of every conditional JP/JR/CALL/RET) x initial cycle counts {0, 5}; then sums over proptest-generated multi-instruction blocks (same generator as C01 layer 3). Compared: Registers.cycles after the translated block vs after interpreter::run_code_block. Through the emulator's own dispatch: the bank-switching cache-pressure program of C04, with the run of every bank ending at a different offset, so that the blocks of different banks differ in length (the translation area fills up and restarts several times while banks other than 1 are mapped) is block-stepped on the jit build and on the interpreter build, and last_block_cycle_length must agree after every block. Restart probe (shared with C03): the translation area is filled to every level from 4 MiB up with blocks of chosen length, then a whole bank of DAA (the longest translation) runs, and bank 1 is executed at the address whose bank-2 block made the area restart; the cycle counts must be the interpreter's. Non-trivial = distinct (encoding, branch outcome) pairs plus distinct generated blocks with at least two instructions.",
    assumptions: &[
        "the interpreter's cycle counts are the reference (pinned to the published SM83 table by C06)",
    ],
    required_classes: &["taken", "not-taken", "multi-instruction", "dispatch-under-cache-pressure", "restart-probe"],
    exhaustive: false,
};

pub const FILL: u8 = 0x76;

pub fn c01_rom() -> RomImage {
    RomImage::new(0x03, 0x02, 0x03, FILL)
}

pub struct JPair {
    pub a: j::M,
    pub b: j::M,
    pub snap: Snapshot,
    pub ram_bank: usize,
    pub rom_bank: usize,
    pub dirty_rom: Vec<usize>,
    pub orig: Vec<u8>,
    /// translations already made for (pc, block bytes): the sandbox's mprotect
    /// does not scale across processes, so identical blocks are translated once
    pub tcache: std::collections::HashMap<(u16, Vec<u8>), usize>,
}

impl JPair {
    pub fn new() -> JPair {
        let rom = c01_rom();
        let mut a = j::M::new(&rom);
        let mut b = j::M::new(&rom);
        a.fill_ram(7);
        b.fill_ram(7);
        let pokes = vec![(0x0000u16, 0x0au8)];
        for (ad, v) in &pokes {
            a.write(*ad, *v);
            b.write(*ad, *v);
        }
        let snap = a.snapshot(pokes);
        let ram_bank = a.ram_bank();
        let rom_bank = a.rom_bank();
        JPair { a, b, snap, ram_bank, rom_bank, dirty_rom: Vec::new(), orig: rom.bytes.clone(), tcache: std::collections::HashMap::new() }
    }
    fn place(&mut self, pc: u16, code: &[u8]) {
        for (i, byte) in code.iter().enumerate() {
            let addr = pc as usize + i;
            let idx = if addr < 0x4000 { addr } else { self.rom_bank * 0x4000 + (addr & 0x3fff) };
            if addr >= 0x8000 {
                break;
            }
            self.a.rom()[idx] = *byte;
            self.b.rom()[idx] = *byte;
            self.dirty_rom.push(idx);
        }
    }
    fn unplace(&mut self) {
        for idx in self.dirty_rom.drain(..) {
            let v = self.orig[idx];
            self.a.rom()[idx] = v;
            self.b.rom()[idx] = v;
        }
    }
}

#[derive(Clone, Debug, Serialize, Deserialize)]
pub struct BlockCase {
    pub pc: u16,
    /// the whole block, terminator included
    pub code: Vec<u8>,
    pub regs: Regs,
    #[serde(default)]
    pub cells: Vec<(u16, u8)>,
}

pub fn block_json(c: &BlockCase) -> Value {
    json!({ "kind": "block", "pc": c.pc, "code": hex(&c.code), "regs": c.regs, "cells": c.cells })
}

fn block_from_json(v: &Value) -> Option<BlockCase> {
    let code = unhex(v.get("code")?.as_str()?);
    let regs: Regs = serde_json::from_value(v.get("regs")?.clone()).ok()?;
    let pc = v.get("pc").and_then(|p| p.as_u64()).unwrap_or(regs.pc as u64) as u16;
    let cells: Vec<(u16, u8)> = v
        .get("cells")
        .and_then(|c| c.as_array())
        .map(|arr| arr.iter().filter_map(|e| e.as_array()).map(|a| (a[0].as_u64().unwrap_or(0) as u16, a[1].as_u64().unwrap_or(0) as u8)).collect())
        .unwrap_or_default();
    Some(BlockCase { pc, code, regs, cells })
}

#[derive(Clone, Copy, PartialEq, Eq)]
pub enum Scope {
    Effect,
    Cycles,
}

fn status_class(s: u8) -> u8 {
    match s {
        1 => 1,
        2 => 2,
        3 => 3,
        4 | 5 => 4,
        _ => 0,
    }
}

/// instruction boundaries of a block, from the reference length table
fn instr_starts(code: &[u8]) -> Vec<usize> {
    let mut v = Vec::new();
    let mut i = 0;
    while i < code.len() {
        v.push(i);
        i += sm83::length(code[i]) as usize;
    }
    v
}

pub struct RunInfo {
    pub changed: bool,
    pub self_bank_switch: bool,
    pub straddle: bool,
    pub crosses_4000: bool,
}

fn classify_block(c: &BlockCase) -> (bool, bool) {
    // (an instruction straddles the end of a ROM region, block runs through 0x4000)
    let mut straddle = false;
    let mut crosses = false;
    for s in instr_starts(&c.code) {
        let a = c.pc as usize + s;
        let len = sm83::length(c.code[s]) as usize;
        for end in [0x4000usize, 0x8000] {
            if a < end && a + len > end {
                straddle = true;
            }
        }
    }
    if c.pc < 0x4000 && c.pc as usize + c.code.len() > 0x4000 {
        crosses = true;
    }
    (straddle, crosses)
}

/// Run one block on both engines and compare within `scope`.
thread_local! {
    static CALLS: std::cell::Cell<u64> = std::cell::Cell::new(0);
    static HOST_PROBLEM: std::cell::RefCell<Option<String>> = std::cell::RefCell::new(None);
}

pub fn run_block(p: &mut JPair, c: &BlockCase, scope: Scope) -> Result<RunInfo, Fail> {
    p.place(c.pc, &c.code);
    for &(a, v) in &c.cells {
        p.a.write(a, v);
        p.b.write(a, v);
    }
    let (straddle, crosses) = classify_block(c);
    // reference: the interpreter
    p.a.set_regs(&c.regs);
    p.a.trace_take();
    p.a.trace_enable(true);
    let ra = {
        let a = &mut p.a;
        guarded(|| a.interp_block())
    };
    p.a.trace_enable(false);
    let ta: Vec<(u16, u8)> = p.a.trace_take().iter().filter(|t| t.0 == 1).map(|t| (t.1, t.2)).collect();
    let bank_after_a = p.a.rom_bank();
    // a block in (or running into) the switchable bank that writes a bank-selecting register:
    // the known finding, also when a second write has put the old bank back by the end
    let wrote_bank_regs = ta.iter().any(|(a, _)| (0x2000..0x8000).contains(a));
    let self_bank_switch = (bank_after_a != p.rom_bank || wrote_bank_regs) && (c.pc >= 0x4000 || crosses);
    // translated
    p.b.set_regs(&c.regs);
    if p.b.cache_used() > 0x400000 {
        p.b.cache_reset();
        p.tcache.clear();
    }
    p.b.trace_enable(true);
    // Both engines end a block at the boundary of the 16 KiB ROM region it starts
    // in; a block that runs through 0x4000 is compared up to that boundary.
    let rb = {
        let b = &mut p.b;
        let tc = &mut p.tcache;
        guarded(|| {
            let pc = c.pc;
            let key = (pc, c.code.clone());
            let off = match tc.get(&key) {
                Some(off) => *off,
                None => {
                    let off = b.translate(pc as usize);
                    tc.insert(key, off);
                    off
                }
            };
            // every 8th call goes through the sentinel shim (host callee-saved registers, rsp)
            CALLS.with(|c| c.set(c.get().wrapping_add(1)));
            if CALLS.with(|c| c.get()) % 8 == 0 {
                let (st, problem) = b.call_checked(off);
                if let Some(p) = problem {
                    HOST_PROBLEM.with(|h| *h.borrow_mut() = Some(p));
                }
                st
            } else {
                b.call(off)
            }
        })
    };
    p.b.trace_enable(false);
    if rb.is_err() {
        // a panic inside translate_code_block leaves the code area writable and
        // not executable; start from a fresh cache so later cases are unaffected
        p.b.cache_reset();
        p.tcache.clear();
    }
    let tb: Vec<(u16, u8)> = p.b.trace_take().iter().filter(|t| t.0 == 1).map(|t| (t.1, t.2)).collect();
    let ga = p.a.regs();
    let gb = p.b.regs();
    let tag = |what: &str| -> String {
        if self_bank_switch {
            "jit-self-bank-switch".to_string()
        } else if straddle {
            format!("jit-straddle-{}", what)
        } else {
            format!("{}-{}", what, first_op_sig(&c.code))
        }
    };
    let mut result: Result<(), Fail> = Ok(());
    if let Some(problem) = HOST_PROBLEM.with(|h| h.borrow_mut().take()) {
        if scope == Scope::Effect {
            result = Err(Fail::new("host-registers", format!("block {} at {:#06x}: {}", hex(&c.code), c.pc, problem)));
        }
    }
    match (&ra, &rb) {
        (Err(ma), _) => {
            // the reference refused: outside the domain (e.g. ran off into unmapped memory) unless the JIT did something
            result = Err(Fail::new("reference-panic", format!("interpreter panicked: {} — block {} at {:#06x}", ma, hex(&c.code), c.pc)));
        }
        (Ok(_), Err(mb)) => {
            result = Err(Fail::new(tag("jit-panic"), format!("translation or call panicked: {} — block {} at {:#06x} from {}", mb, hex(&c.code), c.pc, fmt_regs(&c.regs))));
        }
        (Ok(sa), Ok(sb)) => {
            if scope == Scope::Cycles {
                if ga.cycles != gb.cycles {
                    result = Err(Fail::new(
                        format!("cycles-{}", if self_bank_switch { "self-bank-switch".to_string() } else { cycle_sig(c, &ga) }),
                        format!("block {} at {:#06x} from {}: translated code charged {} machine cycles, interpreter {}", hex(&c.code), c.pc, fmt_regs(&c.regs), gb.cycles, ga.cycles),
                    ));
                }
            } else {
                let regs_a = Regs { cycles: 0, ..ga };
                let regs_b = Regs { cycles: 0, ..gb };
                if let Some(d) = diff_regs(&regs_b, &regs_a, true, false) {
                    result = Err(Fail::new(tag("regs"), format!("block {} at {:#06x} from {}: translated {} (interpreter: {})", hex(&c.code), c.pc, fmt_regs(&c.regs), d, fmt_regs(&ga))));
                } else if status_class(*sa) != status_class(*sb) {
                    result = Err(Fail::new(tag("status"), format!("block {} at {:#06x}: translated status {} vs interpreter {}", hex(&c.code), c.pc, sb, sa)));
                } else if ta != tb {
                    result = Err(Fail::new(
                        tag("writes"),
                        format!("block {} at {:#06x} from {}: translated bus writes {:x?}, interpreter {:x?}", hex(&c.code), c.pc, fmt_regs(&c.regs), tb, ta),
                    ));
                } else if let Some(d) = diff_state(&p.a, &p.b, &["af", "bc", "de", "hl", "sp", "pc", "pending_cycles"]) {
                    result = Err(Fail::new(tag("state"), format!("block {} at {:#06x} from {}: state differs: {}", hex(&c.code), c.pc, fmt_regs(&c.regs), d)));
                }
            }
        }
    }
    let changed = !ta.is_empty() || ga.af != c.regs.af || ga.bc != c.regs.bc || ga.de != c.regs.de || ga.hl != c.regs.hl || ga.sp != c.regs.sp;
    // back to the snapshot
    let mut touched = ta.clone();
    touched.extend(tb.iter().cloned());
    for &(a, _) in &c.cells {
        touched.push((a, 0));
    }
    if result.is_err() || ra.is_err() || rb.is_err() {
        p.a.restore(&p.snap);
        p.b.restore(&p.snap);
    } else {
        undo(&mut p.a, &p.snap, &touched, p.ram_bank);
        undo(&mut p.b, &p.snap, &touched, p.ram_bank);
    }
    p.unplace();
    result.map(|_| RunInfo { changed, self_bank_switch, straddle, crosses_4000: crosses })
}

/// Root-cause class of an encoding: the emitter has one template per operation
/// kind, so CB-page encodings are grouped by (operation, register vs (HL)).
fn first_op_sig(code: &[u8]) -> String {
    if code[0] == 0xcb {
        let cb = code.get(1).cloned().unwrap_or(0);
        let kind = match cb >> 6 {
            0 => ["rlc", "rrc", "rl", "rr", "sla", "sra", "swap", "srl"][(cb >> 3 & 7) as usize],
            1 => "bit",
            2 => "res",
            _ => "set",
        };
        format!("cb-{}-{}", kind, if cb & 7 == 6 { "hl" } else { "r" })
    } else {
        format!("{:02x}", code[0])
    }
}

fn cycle_sig(c: &BlockCase, after: &Regs) -> String {
    let starts = instr_starts(&c.code);
    let last = *starts.last().unwrap_or(&0);
    let fall = c.pc as u32 + c.code.len() as u32;
    let taken = after.pc != (fall & 0xffff);
    let t = c.code[last];
    let conditional = matches!(t, 0x20 | 0x28 | 0x30 | 0x38 | 0xc0 | 0xc8 | 0xd0 | 0xd8 | 0xc2 | 0xca | 0xd2 | 0xda | 0xc4 | 0xcc | 0xd4 | 0xdc);
    let first = first_op_sig(&c.code);
    if starts.len() == 1 || !conditional {
        // attribute to the first instruction; the terminator's outcome only
        // matters when the terminator is the first instruction
        if starts.len() == 1 && conditional {
            format!("{}-{}", first, if taken { "taken" } else { "not-taken" })
        } else {
            first
        }
    } else {
        format!("{}+{:02x}-{}", first, t, if taken { "taken" } else { "not-taken" })
    }
}

// ---------------------------------------------------------------------------
// layer 1: register-only encodings, translated once, called many times

fn set_r8(r: &mut Regs, idx: u8, v: u8) {
    let v = v as u32;
    match idx & 7 {
        0 => r.bc = (r.bc & 0x00ff) | v << 8,
        1 => r.bc = (r.bc & 0xff00) | v,
        2 => r.de = (r.de & 0x00ff) | v << 8,
        3 => r.de = (r.de & 0xff00) | v,
        4 => r.hl = (r.hl & 0x00ff) | v << 8,
        5 => r.hl = (r.hl & 0xff00) | v,
        6 => {}
        _ => r.af = (r.af & 0x00ff) | v << 8,
    }
}

const L1_PC: u16 = 0x0200;

fn base_regs() -> Regs {
    Regs { af: 0x1200, bc: 0x3456, de: 0x789a, hl: 0xc123, sp: 0xdff0, pc: L1_PC as u32, cycles: 0 }
}

struct L1<'a> {
    p: &'a mut JPair,
    off: usize,
    code: Vec<u8>,
    n: u64,
    nt: u64,
}

impl<'a> L1<'a> {
    fn begin(p: &'a mut JPair, instr: &[u8], term: &[u8]) -> Result<L1<'a>, String> {
        let mut code = instr.to_vec();
        code.extend_from_slice(term);
        p.unplace();
        p.place(L1_PC, &code);
        if p.b.cache_used() > 0x400000 {
            p.b.cache_reset();
            p.tcache.clear();
        }
        let off = {
            let b = &mut p.b;
            match guarded(|| b.translate(L1_PC as usize)) {
                Ok(off) => off,
                Err(m) => {
                    p.b.cache_reset();
                    p.tcache.clear();
                    return Err(m);
                }
            }
        };
        Ok(L1 { p, off, code, n: 0, nt: 0 })
    }
    /// one state; returns false after recording a violation
    #[inline]
    fn one(&mut self, r: &Regs, rec: &mut Rec) -> bool {
        self.p.a.set_regs(r);
        self.p.b.set_regs(r);
        let sa = self.p.a.interp_block();
        let sb = self.p.b.call(self.off);
        let ga = self.p.a.regs();
        let gb = self.p.b.regs();
        self.n += 1;
        let same = ga.af == gb.af && ga.bc == gb.bc && ga.de == gb.de && ga.hl == gb.hl && ga.sp == gb.sp && ga.pc == gb.pc && status_class(sa) == status_class(sb);
        if !same {
            let c = BlockCase { pc: L1_PC, code: self.code.clone(), regs: *r, cells: vec![] };
            let d = diff_regs(&Regs { cycles: 0, ..gb }, &Regs { cycles: 0, ..ga }, true, false).unwrap_or_else(|| format!("status {} vs {}", sb, sa));
            rec.violation(
                &format!("regs-{}", first_op_sig(&self.code)),
                block_json(&c),
                format!("block {} from {}: translated {} (interpreter: {})", hex(&self.code), fmt_regs(r), d, fmt_regs(&ga)),
            );
            return false;
        }
        if ga.af != r.af || ga.bc != r.bc || ga.de != r.de || ga.hl != r.hl || ga.sp != r.sp {
            self.nt += 1;
        }
        true
    }
    fn end(self, rec: &mut Rec, class: &str) {
        // no register-only encoding may touch memory: both cores must still be identical
        if let Some(d) = diff_state(&self.p.a, &self.p.b, &["af", "bc", "de", "hl", "sp", "pc", "pending_cycles"]) {
            let c = BlockCase { pc: L1_PC, code: self.code.clone(), regs: base_regs(), cells: vec![] };
            rec.violation(&format!("state-{}", first_op_sig(&self.code)), block_json(&c), format!("register-only block {} changed memory/device state: {}", hex(&self.code), d));
            self.p.a.restore(&self.p.snap);
            self.p.b.restore(&self.p.snap);
        }
        rec.eval(self.n);
        rec.nontrivial_direct(self.nt);
        rec.class(class, self.n);
        let code = self.code.clone();
        rec.sample(|| json!({"kind": "block", "pc": L1_PC, "code": hex(&code), "regs": base_regs(), "note": "layer 1: swept over all operand/flag values"}));
        self.p.unplace();
    }
}

#[derive(Clone, Debug)]
enum Item {
    Load(u8),
    Alu(u8),
    AluImm(u8, u8),
    IncDec8(u8),
    Misc(u8),
    IncDec16(u8),
    AddHl(u8),
    SpOfs(u8, u8),
    Cb(u8),
    LdSpHl,
    LdImm(u8),
    LdRr(u8),
    Ptr(Vec<u8>, u8, u8),
    HighMem(u8),
    Abs(u8),
    Term(u8),
}

fn term_for(k: usize) -> Vec<u8> {
    match k % 4 {
        0 => vec![0x76],
        1 => vec![0xc3, 0x34, 0x02],
        2 => vec![0x18, 0x10],
        _ => vec![0xe9],
    }
}

fn items(tier: Tier) -> Vec<Item> {
    let mut v = Vec::new();
    for op in 0x40..=0x7fu8 {
        if op != 0x76 && op & 7 != 6 && (op >> 3) & 7 != 6 {
            v.push(Item::Load(op));
        }
    }
    for op in 0x80..=0xbfu8 {
        if op & 7 != 6 {
            v.push(Item::Alu(op));
        }
    }
    for op in [0xc6u8, 0xce, 0xd6, 0xde, 0xe6, 0xee, 0xf6, 0xfe] {
        for part in 0..4u8 {
            v.push(Item::AluImm(op, part));
        }
    }
    for y in 0..8u8 {
        if y != 6 {
            v.push(Item::IncDec8(y << 3 | 4));
            v.push(Item::IncDec8(y << 3 | 5));
            v.push(Item::LdImm(y << 3 | 6));
        }
        v.push(Item::Misc(y << 3 | 7));
    }
    for p in 0..4u8 {
        v.push(Item::IncDec16(p << 4 | 0x03));
        v.push(Item::IncDec16(p << 4 | 0x0b));
        v.push(Item::AddHl(p << 4 | 0x09));
        v.push(Item::LdRr(p << 4 | 0x01));
    }
    for part in 0..16u8 {
        v.push(Item::SpOfs(0xe8, part));
        v.push(Item::SpOfs(0xf8, part));
    }
    for cb in 0..=255u8 {
        if cb & 7 != 6 {
            v.push(Item::Cb(cb));
        }
    }
    v.push(Item::LdSpHl);
    // layer 2: pointer forms. (code, which register holds the pointer: 0 BC 1 DE 2 HL 3 SP, part)
    let parts = 8u8;
    let mut ptr_forms: Vec<(Vec<u8>, u8)> = Vec::new();
    for op in [0x02u8, 0x0a] {
        ptr_forms.push((vec![op], 0));
    }
    for op in [0x12u8, 0x1a] {
        ptr_forms.push((vec![op], 1));
    }
    for op in [0x22u8, 0x2a, 0x32, 0x3a, 0x34, 0x35, 0x36] {
        ptr_forms.push((if op == 0x36 { vec![op, 0xa7] } else { vec![op] }, 2));
    }
    for op in 0x40..=0x7fu8 {
        if op != 0x76 && (op & 7 == 6 || (op >> 3) & 7 == 6) {
            ptr_forms.push((vec![op], 2));
        }
    }
    for op in 0x80..=0xbfu8 {
        if op & 7 == 6 {
            ptr_forms.push((vec![op], 2));
        }
    }
    for cb in 0..=255u8 {
        if cb & 7 == 6 {
            ptr_forms.push((vec![0xcb, cb], 2));
        }
    }
    for op in [0xc5u8, 0xd5, 0xe5, 0xf5, 0xc1, 0xd1, 0xe1, 0xf1] {
        ptr_forms.push((vec![op], 3));
    }
    for (code, which) in ptr_forms {
        for part in 0..parts {
            v.push(Item::Ptr(code.clone(), which, part));
        }
    }
    for op in [0xe0u8, 0xf0, 0xe2, 0xf2] {
        v.push(Item::HighMem(op));
    }
    for op in [0xeau8, 0xfa, 0x08] {
        v.push(Item::Abs(op));
    }
    // terminators with stack traffic, SP swept
    for op in [0xcdu8, 0xc4, 0xcc, 0xd4, 0xdc, 0xc9, 0xc0, 0xc8, 0xd0, 0xd8, 0xd9, 0xc7, 0xcf, 0xd7, 0xdf, 0xe7, 0xef, 0xf7, 0xff] {
        v.push(Item::Term(op));
    }
    let _ = tier;
    v
}

fn ptr_values(tier: Tier, part: u8, parts: u8) -> Vec<u32> {
    // all 65536 values in thorough; in quick every region boundary +-2 and every 5th address
    let boundaries = [0x0000u32, 0x2000, 0x4000, 0x6000, 0x8000, 0xa000, 0xc000, 0xd000, 0xe000, 0xfe00, 0xfea0, 0xff00, 0xff80, 0xffff, 0xff46, 0xff04, 0xff0f];
    let mut out = Vec::new();
    for v in 0..=0xffffu32 {
        if (v % parts as u32) as u8 != part {
            continue;
        }
        let near = boundaries.iter().any(|b| (v as i64 - *b as i64).abs() <= 2) || v >= 0xff00;
        if tier == Tier::Thorough || near || v % 5 == (part as u32 % 5) {
            out.push(v);
        }
    }
    out
}

fn run_items(rec: &mut Rec, scope: Scope) {
    let tier = rec.ctx.tier;
    let all = items(tier);
    let mut p = JPair::new();
    for (idx, item) in all.iter().enumerate() {
        if !enum_mine(&rec.ctx, idx) || rec.too_many() {
            continue;
        }
        rec.current(&json!({"kind": "item", "item": format!("{:?}", item)}).to_string());
        let term = term_for(idx);
        macro_rules! l1 {
            ($code:expr, $class:expr, $body:expr) => {{
                match L1::begin(&mut p, $code, &term) {
                    Ok(mut l) => {
                        let f: &mut dyn FnMut(&mut L1, &mut Rec) = &mut $body;
                        f(&mut l, rec);
                        l.end(rec, $class);
                    }
                    Err(m) => rec.violation(&format!("jit-panic-{}", first_op_sig($code)), json!({"kind":"block","pc":L1_PC,"code":hex($code),"regs":base_regs()}), format!("translation panicked: {}", m)),
                }
            }};
        }
        match item.clone() {
            Item::Load(op) => l1!(&[op], "l1-load", |l: &mut L1, rec: &mut Rec| {
                for v in 0..=255u8 {
                    let mut r = base_regs();
                    set_r8(&mut r, op & 7, v);
                    if !l.one(&r, rec) {
                        break;
                    }
                }
            }),
            Item::Alu(op) => l1!(&[op], "l1-alu", |l: &mut L1, rec: &mut Rec| {
                let z = op & 7;
                'outer: for a in 0..=255u8 {
                    for v in 0..=255u8 {
                        if z == 7 && v != a {
                            continue;
                        }
                        for f in LEGAL_F {
                            let mut r = base_regs();
                            r.af = (a as u32) << 8 | f as u32;
                            set_r8(&mut r, z, v);
                            if !l.one(&r, rec) {
                                break 'outer;
                            }
                        }
                    }
                }
            }),
            Item::AluImm(op, part) => {
                for v in (part as u32 * 64)..(part as u32 * 64 + 64) {
                    let code = [op, v as u8];
                    l1!(&code, "l1-alu-imm", |l: &mut L1, rec: &mut Rec| {
                        'outer: for a in 0..=255u8 {
                            for f in LEGAL_F {
                                let mut r = base_regs();
                                r.af = (a as u32) << 8 | f as u32;
                                if !l.one(&r, rec) {
                                    break 'outer;
                                }
                            }
                        }
                    });
                }
            }
            Item::IncDec8(op) => l1!(&[op], "l1-incdec8", |l: &mut L1, rec: &mut Rec| {
                'outer: for v in 0..=255u8 {
                    for f in LEGAL_F {
                        let mut r = base_regs();
                        r.af = (r.af & 0xff00) | f as u32;
                        set_r8(&mut r, (op >> 3) & 7, v);
                        if !l.one(&r, rec) {
                            break 'outer;
                        }
                    }
                }
            }),
            Item::LdImm(op) => {
                for v in [0x00u8, 0x01, 0x7f, 0x80, 0xff, 0x5a] {
                    l1!(&[op, v], "l1-ld-imm", |l: &mut L1, rec: &mut Rec| {
                        for f in LEGAL_F {
                            let mut r = base_regs();
                            r.af = (r.af & 0xff00) | f as u32;
                            if !l.one(&r, rec) {
                                break;
                            }
                        }
                    });
                }
            }
            Item::Misc(op) => l1!(&[op], "l1-rot-daa-misc", |l: &mut L1, rec: &mut Rec| {
                'outer: for a in 0..=255u8 {
                    for f in LEGAL_F {
                        let mut r = base_regs();
                        r.af = (a as u32) << 8 | f as u32;
                        if !l.one(&r, rec) {
                            break 'outer;
                        }
                    }
                }
            }),
            Item::IncDec16(op) => l1!(&[op], "l1-incdec16", |l: &mut L1, rec: &mut Rec| {
                'outer: for v in 0..=0xffffu32 {
                    for f in [0x00u32, 0xf0] {
                        let mut r = base_regs();
                        r.af = (r.af & 0xff00) | f;
                        match op >> 4 {
                            0 => r.bc = v,
                            1 => r.de = v,
                            2 => r.hl = v,
                            _ => r.sp = v,
                        }
                        if !l.one(&r, rec) {
                            break 'outer;
                        }
                    }
                }
            }),
            Item::AddHl(op) => l1!(&[op], "l1-addhl", |l: &mut L1, rec: &mut Rec| {
                use proptest::prelude::RngCore;
                let mut rng = bulk_rng(&rec.ctx, &format!("addhl{}", op));
                let p = op >> 4;
                let edge: [u32; 22] = [0, 1, 2, 0xf, 0x10, 0xff, 0x100, 0x7ff, 0x800, 0xfff, 0x1000, 0x1001, 0x7fff, 0x8000, 0x8001, 0xefff, 0xf000, 0xf001, 0xf7ff, 0xf800, 0xfffe, 0xffff];
                let n_random: u32 = rec.ctx.tier.pick(1 << 20, 1 << 26);
                let total = 22 * 22 * 16 + n_random;
                for k in 0..total {
                    let (hl, v, f) = if k < 22 * 22 * 16 {
                        (edge[(k / 16 / 22) as usize], edge[(k / 16 % 22) as usize], (k % 16) << 4)
                    } else {
                        let x = rng.next_u64();
                        ((x & 0xffff) as u32, ((x >> 16) & 0xffff) as u32, (((x >> 32) & 0xf) << 4) as u32)
                    };
                    let mut r = base_regs();
                    r.af = 0x5500 | f;
                    r.hl = hl;
                    match p {
                        0 => r.bc = v,
                        1 => r.de = v,
                        2 => r.hl = v,
                        _ => r.sp = v,
                    }
                    if !l.one(&r, rec) {
                        break;
                    }
                }
            }),
            Item::LdRr(op) => {
                for v in [0x0000u16, 0x0001, 0x00ff, 0x0100, 0x7fff, 0x8000, 0xfffe, 0xffff, 0x1234] {
                    l1!(&[op, v as u8, (v >> 8) as u8], "l1-ld-rr", |l: &mut L1, rec: &mut Rec| {
                        for f in [0x00u32, 0xf0] {
                            let mut r = base_regs();
                            r.af = 0x1200 | f;
                            l.one(&r, rec);
                        }
                    });
                }
            }
            Item::SpOfs(op, part) => {
                for e in (part as u32 * 16)..(part as u32 * 16 + 16) {
                    l1!(&[op, e as u8], "l1-spofs", |l: &mut L1, rec: &mut Rec| {
                        for sp in 0..=0xffffu32 {
                            let mut r = base_regs();
                            r.sp = sp;
                            r.af = 0x1200 | ((sp & 0xf) << 4);
                            if !l.one(&r, rec) {
                                break;
                            }
                        }
                    });
                }
            }
            Item::Cb(cb) => l1!(&[0xcb, cb], "l1-cb", |l: &mut L1, rec: &mut Rec| {
                'outer: for v in 0..=255u8 {
                    for f in LEGAL_F {
                        let mut r = base_regs();
                        r.af = (r.af & 0xff00) | f as u32;
                        set_r8(&mut r, cb & 7, v);
                        if !l.one(&r, rec) {
                            break 'outer;
                        }
                    }
                }
            }),
            Item::LdSpHl => l1!(&[0xf9], "l1-ld-sp-hl", |l: &mut L1, rec: &mut Rec| {
                for hl in 0..=0xffffu32 {
                    let mut r = base_regs();
                    r.hl = hl;
                    if !l.one(&r, rec) {
                        break;
                    }
                }
            }),
            Item::Ptr(code, which, part) => {
                let mut block = code.clone();
                block.extend_from_slice(&term);
                let vals = ptr_values(tier, part, 8);
                let mut n = 0u64;
                for (k, ptr) in vals.iter().enumerate() {
                    let mut r = base_regs();
                    r.af = ((*ptr * 7 + 3) & 0xff) << 8 | ((k as u32 & 0xf) << 4);
                    r.bc = 0x3456;
                    match which {
                        0 => r.bc = *ptr,
                        1 => r.de = *ptr,
                        2 => r.hl = *ptr,
                        _ => r.sp = *ptr,
                    }
                    if term == [0xe9] && which != 2 {
                        r.hl = 0x0234;
                    }
                    let c = BlockCase { pc: L1_PC, code: block.clone(), regs: r, cells: vec![] };
                    one_block(rec, &mut p, &c, scope);
                    n += 1;
                    if *ptr >= 0xff00 && *ptr < 0xff80 {
                        rec.class("ptr-io", 1);
                    }
                    if *ptr < 0x8000 {
                        rec.class("ptr-rom", 1);
                    }
                }
                rec.class("l2-ptr", n);
            }
            Item::HighMem(op) => {
                let mut n = 0u64;
                for low in 0..=255u32 {
                    for a in [0x00u32, 0x5a, 0x80, 0xff] {
                        let mut r = base_regs();
                        r.af = a << 8;
                        r.bc = 0x3400 | low;
                        let mut code: Vec<u8> = if op & 0x0f == 0 { vec![op, low as u8] } else { vec![op] };
                        code.extend_from_slice(&term);
                        if term == [0xe9] {
                            r.hl = 0x0234;
                        }
                        let c = BlockCase { pc: L1_PC, code, regs: r, cells: vec![] };
                        one_block(rec, &mut p, &c, scope);
                        n += 1;
                    }
                }
                rec.class("l2-highmem", n);
            }
            Item::Abs(op) => {
                let mut addrs: Vec<u32> = (0..2048u32).map(|k| (k * 32 + (k % 32)) & 0xffff).collect();
                addrs.extend([0x1fff, 0x2000, 0x3fff, 0x4000, 0x7fff, 0x8000, 0x9fff, 0xa000, 0xbfff, 0xc000, 0xcfff, 0xd000, 0xdfff, 0xe000, 0xfdff, 0xfe00, 0xfe9f, 0xfea0, 0xfeff, 0xff00, 0xff46, 0xff7f, 0xff80, 0xfffe, 0xffff]);
                let mut n = 0u64;
                for nn in addrs {
                    let mut r = base_regs();
                    r.af = ((nn * 3 + 1) & 0xff) << 8;
                    r.sp = (nn * 0x101 + 0x77) & 0xffff;
                    let mut code = vec![op, nn as u8, (nn >> 8) as u8];
                    code.extend_from_slice(&term);
                    if term == [0xe9] {
                        r.hl = 0x0234;
                    }
                    let c = BlockCase { pc: L1_PC, code, regs: r, cells: vec![] };
                    one_block(rec, &mut p, &c, scope);
                    n += 1;
                }
                rec.class("l2-abs", n);
            }
            Item::Term(op) => {
                let mut n = 0u64;
                let len = sm83::length(op) as usize;
                for f in LEGAL_F {
                    for sp in ptr_values(Tier::Quick, (f >> 4) & 7, 8) {
                        let mut r = base_regs();
                        r.af = 0x1200 | f as u32;
                        r.sp = sp;
                        let mut code = vec![op];
                        if len == 3 {
                            code.push(0x44);
                            code.push(0x03);
                        }
                        let c = BlockCase { pc: L1_PC, code, regs: r, cells: vec![] };
                        one_block(rec, &mut p, &c, scope);
                        n += 1;
                    }
                }
                rec.class("l2-term-stack", n);
            }
        }
    }
}

fn fp_block(c: &BlockCase) -> u64 {
    let mut h = fnv(&c.code);
    h = splitmix(h ^ c.pc as u64);
    h = splitmix(h ^ (c.regs.af as u64) << 32 ^ c.regs.bc as u64);
    h = splitmix(h ^ (c.regs.de as u64) << 32 ^ c.regs.hl as u64);
    splitmix(h ^ (c.regs.sp as u64) << 32 ^ c.regs.cycles as u64)
}

fn one_block(rec: &mut Rec, p: &mut JPair, c: &BlockCase, scope: Scope) {
    rec.current(&block_json(c).to_string());
    rec.eval(1);
    match run_block(p, c, scope) {
        Ok(info) => {
            if info.changed {
                rec.nontrivial(fp_block(c));
            }
        }
        Err(f) => {
            if f.sig == "reference-panic" {
                rec.class("reference-refused", 1);
            } else {
                rec.violation(&f.sig, block_json(c), f.detail);
            }
        }
    }
}

// ---------------------------------------------------------------------------
// layer 3: generated straight-line blocks

#[derive(Clone, Debug)]
pub struct GenBlock {
    pub place: u16,
    pub ops: Vec<(u16, u8, u8)>,
    pub term: (u8, u8, u8),
    pub regs: [u16; 5],
    pub f: u8,
    pub cyc5: bool,
}

/// all defined, non-terminating first bytes (0xcb stands for the CB page)
fn body_table() -> Vec<u8> {
    let mut t = Vec::new();
    for op in 0..=255u8 {
        if sm83::is_undefined(op) || sm83::is_terminator(op) {
            continue;
        }
        t.push(op);
        // weight memory-accessing and CB encodings a little higher
        if op == 0xcb {
            for _ in 0..24 {
                t.push(op);
            }
        }
    }
    t
}

const TERMS: [u8; 34] = [
    0xc3, 0xc2, 0xca, 0xd2, 0xda, 0x18, 0x20, 0x28, 0x30, 0x38, 0xe9, 0xcd, 0xc4, 0xcc, 0xd4, 0xdc, 0xc9, 0xc0, 0xc8, 0xd0, 0xd8, 0xd9,
    0xc7, 0xcf, 0xd7, 0xdf, 0xe7, 0xef, 0xf7, 0xff, 0x76, 0x10, 0xfb, 0xf3,
];

pub fn gen_block_strategy() -> impl Strategy<Value = GenBlock> {
    (
        0u16..1000,
        prop::collection::vec((any::<u16>(), any::<u8>(), any::<u8>()), 0..32),
        (0u8..34, any::<u8>(), any::<u8>()),
        prop::array::uniform5(any::<u16>()),
        0u8..16,
        any::<bool>(),
    )
        .prop_map(|(place, ops, term, regs, f, cyc5)| GenBlock { place, ops, term, regs, f: f << 4, cyc5 })
}

pub fn materialize(g: &GenBlock) -> BlockCase {
    let table = body_table();
    let mut code = Vec::new();
    for (sel, i1, i2) in &g.ops {
        let op = table[(*sel as usize * table.len()) >> 16];
        code.push(op);
        match sm83::length(op) {
            2 => code.push(*i1),
            3 => {
                code.push(*i1);
                code.push(*i2);
            }
            _ => {}
        }
    }
    let t = TERMS[g.term.0 as usize % TERMS.len()];
    code.push(t);
    match sm83::length(t) {
        2 => code.push(if t == 0x10 { 0 } else { g.term.1 }),
        3 => {
            code.push(g.term.1);
            code.push(g.term.2);
        }
        _ => {}
    }
    let len = code.len() as u16;
    // placement classes
    let pc: u16 = match g.place % 10 {
        0 | 1 | 2 => 0x0150 + (g.place / 10) * 7,
        3 => 0x3000 + (g.place / 10) * 3,
        4 => 0x4000 - len,                                     // ends exactly on the last byte of bank 0
        5 => 0x4000,                                           // first byte of the switchable bank
        6 => 0x4000 + (g.place / 10) * 0x91,
        7 => 0x8000 - len,                                     // ends on the last byte of the switchable bank
        8 => 0x4000u16.saturating_sub(1 + (g.place / 10) % len.max(1)), // runs through 0x4000
        _ => (g.place / 10) * 0x40,
    };
    let regs = Regs {
        af: (g.regs[0] as u32 & 0xff00) | g.f as u32,
        bc: g.regs[1] as u32,
        de: g.regs[2] as u32,
        hl: g.regs[3] as u32,
        sp: g.regs[4] as u32,
        pc: pc as u32,
        cycles: if g.cyc5 { 5 } else { 0 },
    };
    BlockCase { pc, code, regs, cells: vec![] }
}

fn classify_gen(rec: &mut Rec, c: &BlockCase) {
    let starts = instr_starts(&c.code);
    let t = c.code[*starts.last().unwrap()];
    let name = match t {
        0xc9 | 0xc0 | 0xc8 | 0xd0 | 0xd8 | 0xd9 => "term-ret",
        0xcd | 0xc4 | 0xcc | 0xd4 | 0xdc => "term-call",
        0x18 | 0x20 | 0x28 | 0x30 | 0x38 => "term-jr",
        0xc3 | 0xc2 | 0xca | 0xd2 | 0xda | 0xe9 => "term-jp",
        0x76 | 0x10 => "term-halt",
        0xfb | 0xf3 => "term-ei-di",
        _ => "term-rst",
    };
    rec.class(name, 1);
    if c.pc >= 0x4000 {
        rec.class("place-bankN", 1);
    }
    let end = c.pc as u32 + c.code.len() as u32;
    if end == 0x4000 || end == 0x8000 {
        rec.class("place-region-end", 1);
    }
    if starts.len() > 1 {
        rec.class("multi-instruction", 1);
    }
}

fn run_generated_blocks(rec: &mut Rec, scope: Scope, cases: u32) {
    let mut p = JPair::new();
    let strat = gen_block_strategy();
    fn to_json(g: &GenBlock) -> Value {
        block_json(&materialize(g))
    }
    run_generated(rec, "l3", cases, strat, to_json, |g, rec, counting| {
        let c = materialize(g);
        rec.current(&block_json(&c).to_string());
        let r = run_block(&mut p, &c, scope);
        if counting {
            rec.eval(1);
            rec.class("l3-blocks", 1);
            classify_gen(rec, &c);
        }
        match r {
            Ok(info) => {
                if counting {
                    if info.changed {
                        rec.nontrivial(fp_block(&c));
                    }
                    if info.self_bank_switch {
                        rec.class("self-bank-switch-agree", 1);
                    }
                    if info.crosses_4000 {
                        rec.class("runs-through-4000", 1);
                    }
                    if info.straddle {
                        rec.class("straddle-agree", 1);
                    }
                    rec.sample(|| block_json(&c));
                }
                Ok(())
            }
            Err(f) => {
                if f.sig == "reference-panic" {
                    if counting {
                        rec.class("reference-refused", 1);
                    }
                    Ok(())
                } else {
                    Err(f)
                }
            }
        }
    });
}

/// Work split: translation-heavy generated blocks run on shard 0 only (mprotect,
/// which every translation calls twice, gets slower with every additional
/// process in this sandbox); the enumerations, which translate once and call
/// many times, are spread over the remaining shards.
fn enum_mine(ctx: &Ctx, idx: usize) -> bool {
    if ctx.nshards == 1 {
        true
    } else {
        ctx.shard > 0 && idx % (ctx.nshards - 1) == ctx.shard - 1
    }
}

// ---------------------------------------------------------------------------
// layer 4: every encoding behind a context prefix. The emitted code of one guest
// instruction must not depend on host state left by the previous one (host flags
// after the cycle-counter add, scratch registers). The prefixes bring the block's
// cycle count to every value around the nibble carries 16 and 32 - from pending
// counts 0 and 5, ending in a 1-, 2- or 3-cycle instruction - before the
// instruction under test runs.

fn context_prefixes() -> Vec<(Vec<u8>, u32)> {
    let mut v = Vec::new();
    for total in [10u32, 11, 12, 14, 15, 16, 17, 18, 30, 31, 32, 33] {
        for (last, cost) in [(vec![0x00u8], 1u32), (vec![0x16, 0xc4], 2), (vec![0x11, 0x00, 0xc4], 3)] {
            let mut code = vec![0x00u8; (total - cost) as usize];
            code.extend(last);
            v.push((code, total));
        }
    }
    v
}

fn run_context_layer(rec: &mut Rec, scope: Scope) {
    // translation-heavy: a few shards share it
    let workers: Vec<usize> = if rec.ctx.nshards >= 8 { vec![1, 5, 9, 13] } else { vec![0] };
    let my = match workers.iter().position(|w| *w % rec.ctx.nshards == rec.ctx.shard) {
        Some(k) => k,
        None => return,
    };
    let prefixes = context_prefixes();
    let mut encodings: Vec<Vec<u8>> = Vec::new();
    for op in 0..=255u8 {
        if sm83::is_undefined(op) {
            continue;
        }
        if op == 0xcb {
            for cb in 0..=255u8 {
                encodings.push(vec![0xcb, cb]);
            }
            continue;
        }
        match sm83::length(op) {
            1 => encodings.push(vec![op]),
            2 => {
                for imm in [0x00u8, 0x80, 0xff] {
                    encodings.push(vec![op, if op == 0x10 { 0 } else { imm }]);
                }
            }
            _ => {
                for imm in [(0x00u8, 0x00u8), (0x80, 0xc0), (0xff, 0xff)] {
                    encodings.push(vec![op, imm.0, imm.1]);
                }
            }
        }
    }
    let mut p = JPair::new();
    let thorough = rec.ctx.tier == Tier::Thorough;
    let mut n = 0usize;
    for (ei, enc) in encodings.iter().enumerate() {
        if ei % workers.len() != my || rec.too_many() {
            continue;
        }
        for (pi, (prefix, _total)) in prefixes.iter().enumerate() {
            // quick: a rotating third of the prefixes per encoding (every prefix meets every template family)
            if !thorough && (pi + ei) % 3 != 0 {
                continue;
            }
            for f in [0x00u32, 0xf0] {
                for cyc in [0u32, 5] {
                    let mut code = prefix.clone();
                    code.extend(enc.iter());
                    if !sm83::is_terminator(enc[0]) {
                        code.extend([0xc3, 0x00, 0x02]);
                    }
                    let c = BlockCase { pc: 0x0300, code, regs: Regs { af: 0x1200 | f, bc: 0xc320, de: 0xc400, hl: 0xc210, sp: 0xdff0, pc: 0x0300, cycles: cyc }, cells: vec![] };
                    n += 1;
                    if n % 64 == 1 {
                        rec.current(&block_json(&c).to_string());
                    }
                    rec.eval(1);
                    rec.class("l4-context", 1);
                    match run_block(&mut p, &c, scope) {
                        Ok(info) => {
                            if info.changed {
                                rec.nontrivial_direct(1);
                            }
                        }
                        Err(fl) => {
                            if fl.sig != "reference-panic" {
                                rec.violation(&format!("context-{}", fl.sig), block_json(&c), fl.detail);
                            }
                        }
                    }
                }
            }
        }
    }
}

fn run_c01(rec: &mut Rec) {
    run_items(rec, Scope::Effect);
    run_context_layer(rec, Scope::Effect);
    run_target_coincidences(rec, Scope::Effect);
    // layer 5: through the emulator's own dispatch, across restarts of the translation area
    {
        let step = rec.ctx.tier.pick(0x40000usize, 0x8000);
        let mut k = 0usize;
        let mut target = 0x480000usize;
        while target < 0x7f0000 {
            if k % rec.ctx.nshards.max(1) == rec.ctx.shard && !rec.too_many() {
                restart_probe_effect(rec, target);
            }
            k += 1;
            target += step;
        }
    }
    if rec.ctx.shard == 0 {
        let cases = rec.ctx.tier.pick(40_000u32, 3_000_000);
        run_generated_blocks(rec, Scope::Effect, cases);
    }
    // layer 6: the same generator through the emulator's own step, device time included
    if rec.ctx.shard == 2 || rec.ctx.nshards < 3 {
        run_stepped_blocks(rec, rec.ctx.tier.pick(3000u32, 200_000));
    }
}

/// Layer 7: control transfers whose target coincides with something else about the block —
/// the fall-through address (JP cc to PC+3, JR cc +0, CALL cc to the next instruction, RET to
/// the byte after itself, RST from the byte before its vector, JP HL to the next address),
/// the instruction's own address or its second byte, the first byte of the block, and the
/// bank boundary; taken and not taken under all 16 flag states, entered with 0 and 5 pending
/// cycles, placed in the fixed bank, so that the fall-through address is 0x4000, and in the
/// switchable bank. Random targets meet these with probability 2^-16 each.
fn run_target_coincidences(rec: &mut Rec, scope: Scope) {
    let mut p = JPair::new();
    let mut n = 0u64;
    let abs_ops = [0xc3u8, 0xc2, 0xca, 0xd2, 0xda, 0xcd, 0xc4, 0xcc, 0xd4, 0xdc];
    let rel_ops = [0x18u8, 0x20, 0x28, 0x30, 0x38];
    let ret_ops = [0xc9u8, 0xc0, 0xc8, 0xd0, 0xd8, 0xd9];
    let mut cases: Vec<BlockCase> = Vec::new();
    for nops in 0..2u16 {
        for place in 0..3u8 {
            let mk = |len: u16| -> (u16, u16, u16) {
                let pc0 = match place {
                    0 => L1_PC,
                    1 => 0x4000 - len - nops,
                    _ => 0x4000,
                };
                (pc0, pc0 + nops, pc0 + nops + len)
            };
            let targets = |pc0: u16, ta: u16, next: u16| -> Vec<u16> {
                vec![next, ta, ta.wrapping_add(1), pc0, next.wrapping_add(1), next.wrapping_sub(1), 0x3fff, 0x4000, 0x7fff, 0x0000]
            };
            for &op in &abs_ops {
                let (pc0, ta, next) = mk(3);
                for t in targets(pc0, ta, next) {
                    let mut code = vec![0u8; nops as usize];
                    code.extend_from_slice(&[op, t as u8, (t >> 8) as u8]);
                    cases.push(BlockCase { pc: pc0, code, regs: base_regs(), cells: vec![] });
                }
            }
            for &op in &rel_ops {
                let (pc0, ta, next) = mk(2);
                for t in targets(pc0, ta, next) {
                    let d = t.wrapping_sub(next) as i16;
                    if d < -128 || d > 127 {
                        continue;
                    }
                    let mut code = vec![0u8; nops as usize];
                    code.extend_from_slice(&[op, d as i8 as u8]);
                    cases.push(BlockCase { pc: pc0, code, regs: base_regs(), cells: vec![] });
                }
            }
            for &op in &ret_ops {
                let (pc0, ta, next) = mk(1);
                for t in targets(pc0, ta, next) {
                    let mut code = vec![0u8; nops as usize];
                    code.push(op);
                    let cells = vec![(0xdff0u16, t as u8), (0xdff1u16, (t >> 8) as u8)];
                    cases.push(BlockCase { pc: pc0, code, regs: base_regs(), cells });
                }
            }
            {
                let (pc0, ta, next) = mk(1);
                for t in targets(pc0, ta, next) {
                    let mut code = vec![0u8; nops as usize];
                    code.push(0xe9);
                    let mut regs = base_regs();
                    regs.hl = t as u32;
                    cases.push(BlockCase { pc: pc0, code, regs, cells: vec![] });
                }
            }
        }
        // RST from the byte before its vector (the target is the fall-through address) and
        // from the vector itself (the target is the instruction)
        for v in 1..8u16 {
            for at in [v * 8 - 1, v * 8] {
                if at < nops {
                    continue;
                }
                let mut code = vec![0u8; nops as usize];
                code.push(0xc7 | (v as u8) << 3);
                cases.push(BlockCase { pc: at - nops, code, regs: base_regs(), cells: vec![] });
            }
        }
    }
    for (k, base) in cases.iter().enumerate() {
        if !enum_mine(&rec.ctx, k) || rec.too_many() {
            continue;
        }
        for f in LEGAL_F {
            for cyc in [0u32, 5] {
                let mut c = base.clone();
                c.regs.af = 0x4200 | f as u32;
                c.regs.pc = c.pc as u32;
                c.regs.cycles = cyc;
                one_block(rec, &mut p, &c, scope);
                n += 1;
            }
        }
        if k % 37 == 0 {
            rec.sample(|| block_json(base));
        }
    }
    rec.class("l7-target-coincidence", n);
}

/// Layer 6: generated blocks through the emulator's own step (Core::run_code_block of the jit
/// build against the interpreter build): dispatch, the block, the device catch-up with the
/// cycles the block reports plus whatever was pending, the interrupt check. Compared: the
/// complete machine state including the device positions (divider, TIMA, LCD line and dot),
/// so that time lost or gained on the way to the devices shows as I/O state.
fn run_stepped_blocks(rec: &mut Rec, cases: u32) {
    use crate::mach::i;
    let rom = c01_rom();
    let mut jit = j::M::new(&rom);
    let mut int = i::M::new(&rom);
    jit.fill_ram(7);
    int.fill_ram(7);
    let snap = int.snapshot(vec![(0x0000u16, 0x0au8)]);
    let strat = gen_block_strategy();
    fn to_json(g: &GenBlock) -> Value {
        let mut v = block_json(&materialize(g));
        v["kind"] = json!("stepped-block");
        v
    }
    let cell = std::cell::RefCell::new((jit, int));
    run_generated(rec, "l6", cases, strat, to_json, |g, rec, counting| {
        let c = materialize(g);
        let mut case = block_json(&c);
        case["kind"] = json!("stepped-block");
        if counting {
            rec.current(&case.to_string());
            rec.eval(1);
            rec.class("l6-stepped-blocks", 1);
            if c.regs.cycles != 0 {
                rec.class("l6-entered-with-pending-cycles", 1);
            }
        }
        let mut pair = cell.borrow_mut();
        let (jit, int) = &mut *pair;
        stepped_block(jit, int, &snap, &c)
    });
}

fn stepped_block(jit: &mut j::M, int: &mut crate::mach::i::M, snap: &Snapshot, c: &BlockCase) -> CaseResult {
    jit.restore(snap);
    int.restore(snap);
    // fresh translations for every case: the code placed at an address changes from case to case
    jit.cache_reset();
    for m in [&mut *jit as &mut dyn Emu, &mut *int as &mut dyn Emu] {
        for (k, b) in c.code.iter().enumerate() {
            let a = c.pc as usize + k;
            if a < 0x4000 {
                m.rom()[a] = *b;
            } else if a < 0x8000 {
                let bank = m.rom_bank();
                m.rom()[bank * 0x4000 + (a & 0x3fff)] = *b;
            }
        }
        for &(a, v) in &c.cells {
            m.write(a, v);
        }
        m.set_regs(&c.regs);
        m.set_ime(crate::mach::IME_DISABLED);
        m.set_run_state(crate::mach::RUN);
    }
    int.trace_enable(true);
    let _ = int.trace_take();
    let ri = guarded(|| int.step_block());
    int.trace_enable(false);
    let wrote_bank_regs = int.trace_take().iter().any(|t| t.0 == 1 && (0x2000..0x8000).contains(&t.1));
    let rj = guarded(|| jit.step_block());
    match (ri, rj) {
        (Err(_), _) => Ok(()), // the reference refused (ran into unmapped memory / an undefined opcode)
        (Ok(()), Err(m)) => Err(Fail::new("stepped-jit-panic", format!("block {} at {:#06x} from {}: the jit build's step panicked: {}", hex(&c.code), c.pc, fmt_regs(&c.regs), m))),
        (Ok(()), Ok(())) => {
            let end = c.pc as usize + c.code.len();
            if (c.pc >= 0x4000 || end > 0x4000) && (wrote_bank_regs || int.rom_bank() != jit.rom_bank() || int.rom_bank() != 1) {
                // the block switched its own bank: the known finding of layers 1-4
                return Ok(());
            }
            match diff_state(&*jit, &*int, &[]) {
                None => Ok(()),
                Some(d) => {
                    let sig = if d.contains("divider") || d.contains("tima") || d.contains("lcd_") || d.contains("stat") { "stepped-device-time" } else { "stepped-state" };
                    Err(Fail::new(sig, format!("block {} at {:#06x} from {} stepped by Core::run_code_block: the jit build and the interpreter build differ afterwards: {}", hex(&c.code), c.pc, fmt_regs(&c.regs), d)))
                }
            }
        }
    }
}

/// C03's restart probe judged on the architectural effect of the two blocks (registers,
/// serial bytes) through the emulator's own dispatch
fn restart_probe_effect(rec: &mut Rec, target: usize) {
    let case = json!({"kind": "restart-probe-effect", "target": target});
    rec.current(&case.to_string());
    rec.eval(1);
    rec.class("restart-probe", 1);
    rec.nontrivial(fnv(case.to_string().as_bytes()));
    if let Ok(p) = crate::checks::c03::restart_probe(target) {
        let mut pairs = vec![("the whole bank of DAA under bank 1", 0x4000u16, &p.largest)];
        if let Some(a) = &p.after_restart {
            pairs.push(("bank 1 at the address whose bank-2 block made the translation area restart", p.last_filler_pc, a));
        }
        for (what, pc, (oj, oi)) in pairs {
            if oj.regs != oi.regs || oj.serial != oi.serial {
                rec.violation("restart-probe-effect", case.clone(), format!("{} (block at {:#06x}, {} bytes of the translation area in use): translated {:?} / sent {:02x?}, interpreter {:?} / sent {:02x?}", what, pc, p.level, oj.regs, oj.serial, oi.regs, oi.serial));
                return;
            }
        }
    }
}

fn replay_c01(case: &Value, rec: &mut Rec) {
    if case.get("kind").and_then(|k| k.as_str()) == Some("stepped-block") {
        if let Some(c) = block_from_json(case) {
            use crate::mach::i;
            let rom = c01_rom();
            let mut jit = j::M::new(&rom);
            let mut int = i::M::new(&rom);
            jit.fill_ram(7);
            int.fill_ram(7);
            let snap = int.snapshot(vec![(0x0000u16, 0x0au8)]);
            rec.eval(1);
            rec.current(&case.to_string());
            if let Err(f) = stepped_block(&mut jit, &mut int, &snap, &c) {
                rec.violation(&f.sig, case.clone(), f.detail);
            }
        } else {
            rec.inconclusive("replay case is not a block");
        }
        return;
    }
    if case.get("kind").and_then(|k| k.as_str()) == Some("restart-probe-effect") {
        restart_probe_effect(rec, (case.get("target").and_then(|v| v.as_u64()).unwrap_or(0x500000) as usize).min(0x7f0000));
        return;
    }
    replay_scope(case, rec, Scope::Effect)
}

fn replay_scope(case: &Value, rec: &mut Rec, scope: Scope) {
    if case.get("kind").and_then(|k| k.as_str()) == Some("fuzz-bytes") {
        let data = unhex(case.get("bytes").and_then(|b| b.as_str()).unwrap_or(""));
        rec.eval(1);
        if let Err(f) = fuzz_block(&data) {
            rec.violation(&f.sig, case.clone(), f.detail);
        }
        return;
    }
    match block_from_json(case) {
        Some(c) => {
            let mut p = JPair::new();
            one_block(rec, &mut p, &c, scope);
        }
        None => {
            if case.get("kind").and_then(|k| k.as_str()) == Some("item") {
                rec.inconclusive("crash breadcrumb names only an enumeration item; rerun the check to reproduce");
            } else {
                rec.inconclusive("replay case is not a block");
            }
        }
    }
}

// ---------------------------------------------------------------------------
// C02

fn run_c02(rec: &mut Rec) {
    let mut p = JPair::new();
    let mut fps = std::collections::HashSet::new();
    for idx in 0..512usize {
        if !enum_mine(&rec.ctx, idx) || rec.too_many() {
            continue;
        }
        let (op, cb) = if idx < 256 { (idx as u8, None) } else { (0xcbu8, Some((idx - 256) as u8)) };
        if idx == 0xcb || sm83::is_undefined(op) {
            continue;
        }
        let len = sm83::length(op) as usize;
        for f in LEGAL_F {
            for cyc in [0u32, 5] {
                for variant in 0..3u32 {
                    let mut code = vec![op];
                    if let Some(cb) = cb {
                        code.push(cb);
                    } else if len == 2 {
                        code.push(if op == 0x10 { 0 } else { [0x05u8, 0xfb, 0x7f][variant as usize] });
                    } else if len == 3 {
                        let t = [0x0234u16, 0x4100, 0x0000][variant as usize];
                        code.push(t as u8);
                        code.push((t >> 8) as u8);
                    }
                    if !sm83::is_terminator(op) {
                        code.extend_from_slice(&term_for(idx + variant as usize));
                    }
                    let mut r = base_regs();
                    r.af = 0x4200 | f as u32;
                    r.cycles = cyc;
                    r.hl = [0xc123u32, 0x0234, 0xff80][variant as usize];
                    r.sp = [0xdff0u32, 0xc100, 0xfffe][variant as usize];
                    let c = BlockCase { pc: L1_PC, code, regs: r, cells: vec![] };
                    rec.current(&block_json(&c).to_string());
                    rec.eval(1);
                    match run_block(&mut p, &c, Scope::Cycles) {
                        Ok(_) => {
                            // which outcome did the reference take?
                            let mut cpu = cpu_from_regs(&c.regs);
                            let mut bus = sm83::FlatBus::new();
                            for (i, b) in c.code.iter().enumerate() {
                                bus.mem[L1_PC as usize + i] = *b;
                            }
                            let out = sm83::step(&mut cpu, &mut bus);
                            match out.taken {
                                Some(true) => rec.class("taken", 1),
                                Some(false) => rec.class("not-taken", 1),
                                None => {}
                            }
                            fps.insert(fnv(&[op, cb.unwrap_or(0), out.taken.map(|t| t as u8 + 1).unwrap_or(0)]));
                        }
                        Err(fl) => {
                            if fl.sig != "reference-panic" {
                                rec.violation(&fl.sig, block_json(&c), fl.detail);
                            }
                        }
                    }
                }
            }
        }
        rec.sample(|| json!({"kind":"block","pc":L1_PC,"code":hex(&[op, cb.unwrap_or(0)][..if cb.is_some() {2} else {1}]),"note":"x 16 flag states x cycles {0,5} x 3 operand variants"}));
    }
    for fp in fps {
        rec.nontrivial(fp);
    }
    run_target_coincidences(rec, Scope::Cycles);
    if rec.ctx.shard == 0 {
        let cases = rec.ctx.tier.pick(40_000u32, 3_000_000);
        run_generated_blocks(rec, Scope::Cycles, cases);
    }
    // through the emulator's own dispatch, with the translation area filling up and
    // restarting while the program switches ROM banks: every block's charge must still
    // be the interpreter's for the instructions mapped at that moment
    if rec.ctx.shard == 1 || rec.ctx.nshards < 2 {
        pressure_cycles(rec, rec.ctx.tier.pick(700, 8000));
    }
    {
        let step = rec.ctx.tier.pick(0x20000usize, 0x8000);
        let mut k = 0usize;
        let mut target = 0x400000usize;
        while target < 0x7f0000 {
            if k % rec.ctx.nshards.max(1) == rec.ctx.shard && rec.ctx.shard % 2 == 0 && !rec.too_many() {
                restart_probe_cycles(rec, target);
            }
            k += 2;
            target += step;
        }
    }
}

/// C03's restart probe, judged on the cycle counts alone: the largest block entered at
/// every fill level of the translation area, and bank 1 executed at the address whose bank-2
/// block made the area restart
fn restart_probe_cycles(rec: &mut Rec, target: usize) {
    let case = json!({"kind": "restart-probe-cycles", "target": target});
    rec.current(&case.to_string());
    rec.eval(1);
    rec.class("restart-probe", 1);
    rec.nontrivial(fnv(case.to_string().as_bytes()));
    match crate::checks::c03::restart_probe(target) {
        Err(_) => rec.class("restart-probe-panicked (C03 reports it)", 1),
        Ok(p) => {
            let mut pairs = vec![("the whole bank of DAA under bank 1", 0x4000u16, &p.largest)];
            if let Some(a) = &p.after_restart {
                pairs.push(("bank 1 at the address whose bank-2 block made the area restart", p.last_filler_pc, a));
            }
            for (what, pc, (oj, oi)) in pairs {
                if oj.cycles != oi.cycles {
                    rec.violation("restart-probe-cycles", case.clone(), format!("{} (block at {:#06x}, {} bytes of the translation area in use): translated code charged {} machine cycles, the interpreter {}", what, pc, p.level, oj.cycles, oi.cycles));
                    return;
                }
            }
        }
    }
}

fn pressure_cycles(rec: &mut Rec, steps: u32) {
    use crate::mach::i;
    let case = json!({"kind": "cache-pressure-cycles", "steps": steps});
    rec.current(&case.to_string());
    rec.eval(steps as u64);
    rec.class("dispatch-under-cache-pressure", 1);
    rec.nontrivial(fnv(case.to_string().as_bytes()));
    let rom = crate::checks::c04::pressure_rom3();
    let mut jit = j::M::new(&rom);
    let mut int = i::M::new(&rom);
    let mut restarts = 0u32;
    let mut used_before = 0usize;
    for step in 0..steps {
        let pc0 = int.regs().pc;
        let bank = int.rom_bank();
        let r = guarded(|| {
            int.step_block();
            jit.step_block();
        });
        if let Err(m) = r {
            rec.violation("pressure-panic", case.clone(), format!("step {} (block at {:#06x}): panicked: {}", step, pc0, m));
            return;
        }
        let used = jit.cache_used();
        if std::env::var("GB_PRESS_DEBUG").is_ok() {
            eprintln!("step {} pc {:#06x} bank {} used {:#x} -> {:#x} (+{})", step, pc0, bank, used_before, used, used as i64 - used_before as i64);
        }
        if used < used_before {
            restarts += 1;
        }
        used_before = used;
        let (cj, ci) = (jit.last_block_cycles(), int.last_block_cycles());
        if cj != ci {
            rec.violation("pressure-cycles", case.clone(), format!("step {} (block at {:#06x}, ROM bank {}, {} restarts of the translation area so far): translated code charged {} machine cycles, the interpreter {} for the instructions mapped there", step, pc0, bank, restarts, cj, ci));
            return;
        }
        if jit.regs() != int.regs() {
            // the engines no longer execute the same instructions: C03 / C04 report that
            rec.class("pressure-run-ended-on-a-state-difference", 1);
            return;
        }
    }
    if restarts > 0 {
        rec.class("translation-area-restarted", restarts as u64);
    }
}

fn replay_c02(case: &Value, rec: &mut Rec) {
    if case.get("kind").and_then(|k| k.as_str()) == Some("restart-probe-cycles") {
        restart_probe_cycles(rec, (case.get("target").and_then(|v| v.as_u64()).unwrap_or(0x500000) as usize).min(0x7f0000));
        return;
    }
    if case.get("kind").and_then(|k| k.as_str()) == Some("cache-pressure-cycles") {
        pressure_cycles(rec, case.get("steps").and_then(|v| v.as_u64()).unwrap_or(700) as u32);
        return;
    }
    replay_scope(case, rec, Scope::Cycles)
}

thread_local! {
    static FUZZ_PAIR: std::cell::RefCell<Option<JPair>> = std::cell::RefCell::new(None);
}

/// fuzz entry: bytes -> placement, initial registers, instruction stream (defined,
/// non-terminating encodings only) and terminator; differential oracle inside.
pub fn fuzz_block(data: &[u8]) -> Result<(), Fail> {
    if data.len() < 16 {
        return Ok(());
    }
    let table = body_table();
    let place = u16::from_le_bytes([data[0], data[1]]) % 1000;
    let mut regs = [0u16; 5];
    for k in 0..5 {
        regs[k] = u16::from_le_bytes([data[2 + 2 * k], data[3 + 2 * k]]);
    }
    let f = data[12] & 0xf0;
    let cyc5 = data[12] & 1 == 1;
    let term = (data[13] % 34, data[14], data[15]);
    let mut ops = Vec::new();
    for ch in data[16..].chunks_exact(3).take(31) {
        ops.push(((ch[0] as u16) << 8 | ch[0] as u16, ch[1], ch[2]));
    }
    let _ = table;
    let g = GenBlock { place, ops, term, regs, f, cyc5 };
    let c = materialize(&g);
    FUZZ_PAIR.with(|p| {
        let mut p = p.borrow_mut();
        if p.is_none() {
            *p = Some(JPair::new());
        }
        match run_block(p.as_mut().unwrap(), &c, Scope::Effect) {
            Ok(_) => Ok(()),
            Err(f) if f.sig == "reference-panic" => Ok(()),
            Err(f) => Err(Fail::new(f.sig, format!("{} [case {}]", f.detail, block_json(&c)))),
        }
    })
}

pub fn fuzz_block_json(data: &[u8]) -> Value {
    json!({"kind": "fuzz-bytes", "bytes": hex(data)})
}
