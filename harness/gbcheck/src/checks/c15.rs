//! C15 — the presented frame equals the reference composition of BG, window and objects.

use super::common::*;
use crate::engine::*;
use crate::mach::{i, Emu};
use models::ppu::{render, Regs as PpuRegs, Stats, H, W};
use proptest::prelude::*;
use serde_json::{json, Value};

pub static DEF: CheckDef = CheckDef {
    id: "C15",
    run,
    replay,
    rule: "proptest frames: VRAM from a seed in three styles (arbitrary bytes; sparse tile data with small map alphabets; solid / striped tiles), OAM of 0-40 generated objects (Y and X biased to the screen edges, to X in 1..7 and 161..167, to one shared line so that more than ten compete, to equal X; any tile and attribute byte), SCX/SCY any, WX in {0..6, 7..166, 167..255}, WY any (biased to 0..143), BGP/OBP0/OBP1 any, LCDC bits 1-6 any with bits 0 and 7 set, all held constant over the frame. In two cases out of five one or two earlier frames with other LCDC / scroll / window / OAM contents are presented first (registers and OAM rewritten at the start of the vertical blank; in half of these the tile data is rewritten too, under the same maps, and the scroll values are biased so that the last tile row fetched on line 143 and the first fetched on line 0 are the same row of the same tile), and the measured frame must not depend on them. The machine is driven from power-on through the frame(s) (70224 clocks each) twice - in 4-clock batches and in generated larger batches - and the buffer presented at VBlank is compared pixel by pixel with the reference composition (models::ppu); both runs must also agree with each other. Whole-core layer: the scene is built by a guest program (tile data and maps copied from ROM into video RAM, the object table stored into OAM directly or moved there by OAM DMA, the registers written, then HALT with every source disabled) executed by update() of the interpreter build, block-stepped on the interpreter build and block-stepped on the jit build; two frames later the presented buffer must be the reference composition of that scene. Non-trivial = frame with window pixels visible, an object pixel visible, a BG-over-OBJ pixel, a line with more than ten candidate objects, a flipped or 8x16 object pixel, or overlapping objects (measured on the reference); distinct by hash of the case.",
    assumptions: &[
        "models::ppu: first ten objects in OAM order whose rows cover the line regardless of X; lowest X then lowest OAM index; the first non-transparent object pixel decides and carries its own BG-over-OBJ bit; window where LCDC.5 and y >= WY and x+7 >= WX and WX <= 166, its row counted as y - WY; signed tile addressing when LCDC.4 = 0; 8x16 objects ignore bit 0 of the tile index",
        "registers, VRAM and OAM constant over the frame; LCD and BG enabled (LCDC bits 7 and 0 set); DMG window glitches at WX = 0 / 166 are out of scope",
    ],
    required_classes: &["window-visible", "object-visible", "bg-over-obj", "more-than-ten-on-a-line", "flipped-object", "tall-object", "overlapping-objects", "object-partly-off-screen", "wx-below-7", "wx-above-166", "signed-tile-addressing", "after-earlier-frames", "objects-switched-off-between-frames", "window-switched-off-between-frames", "tiles-rewritten-between-frames", "tiles-rewritten-and-same-tile-row-at-the-frame-seam", "core-frame", "core-frame-oam-by-dma", "core-frame-jit-blocks"],
    exhaustive: false,
};

#[derive(Clone, Debug, serde::Serialize, serde::Deserialize)]
struct Case {
    vram_seed: u64,
    vram_kind: u8,
    oam: Vec<[u8; 4]>,
    lcdc: u8,
    scx: u8,
    scy: u8,
    wx: u8,
    wy: u8,
    bgp: u8,
    obp0: u8,
    obp1: u8,
    cuts: Vec<u16>,
    /// frames presented before the measured one: (LCDC, SCX, SCY, WX, WY, OAM); VRAM and
    /// palettes stay; registers and OAM are changed at the start of the vertical blank
    #[serde(default)]
    pre: Vec<(u8, u8, u8, u8, u8, Vec<[u8; 4]>)>,
    /// tile data of the earlier frames (seed per earlier frame; maps are those of the measured
    /// frame): the tiles are rewritten during the vertical blank before the measured frame
    #[serde(default)]
    pre_tiles: Vec<u64>,
}

/// video RAM of earlier frame k: other tile data under the same maps, if a seed is given
fn pre_vram(c: &Case, k: usize, vram: &[u8]) -> Vec<u8> {
    match c.pre_tiles.get(k) {
        None => vram.to_vec(),
        Some(seed) => {
            let mut other = c.clone();
            other.vram_seed = *seed;
            let mut v = build_vram(&other);
            v[0x1800..].copy_from_slice(&vram[0x1800..]);
            v
        }
    }
}

fn case_json(c: &Case) -> Value {
    json!({"kind": "frame", "case": c})
}

fn build_vram(c: &Case) -> Vec<u8> {
    let mut v = vec![0u8; 0x2000];
    let mut x = c.vram_seed ^ 0xc15;
    let mut next = || {
        x = splitmix(x);
        x
    };
    match c.vram_kind % 4 {
        0 => {
            for b in v.iter_mut() {
                *b = next() as u8;
            }
        }
        1 => {
            // sparse tile data (many transparent pixels), maps over a small alphabet
            for t in 0..384 {
                for row in 0..8 {
                    let r = next();
                    if r & 3 != 0 {
                        v[t * 16 + row * 2] = (r >> 8) as u8 & (r >> 16) as u8;
                        v[t * 16 + row * 2 + 1] = (r >> 24) as u8 & (r >> 32) as u8;
                    }
                }
            }
            let alpha = 1 + (next() % 24) as u8;
            for b in v[0x1800..].iter_mut() {
                let r = next();
                *b = (r % alpha as u64) as u8 ^ if r & 0x100 != 0 { 0x80 } else { 0 };
            }
        }
        2 => {
            // solid and striped tiles: position errors show up as clean edges
            for t in 0..384 {
                let style = next() % 6;
                for row in 0..8 {
                    let (lo, hi) = match style {
                        0 => (0x00, 0x00),
                        1 => (0xff, 0x00),
                        2 => (0x00, 0xff),
                        3 => (0xff, 0xff),
                        4 => (0xf0, 0x3c),
                        _ => (if row < 4 { 0xff } else { 0x00 }, if row % 2 == 0 { 0xff } else { 0x00 }),
                    };
                    v[t * 16 + row * 2] = lo;
                    v[t * 16 + row * 2 + 1] = hi;
                }
            }
            for b in v[0x1800..].iter_mut() {
                *b = next() as u8;
            }
        }
        _ => {
            // every tile distinct and asymmetric, maps = identity-like
            for t in 0..384 {
                for row in 0..8 {
                    v[t * 16 + row * 2] = (t as u8).wrapping_mul(7).wrapping_add((row as u8).wrapping_mul(37)) | 0x80 >> row;
                    v[t * 16 + row * 2 + 1] = (t as u8 ^ 0x5a).rotate_left(row as u32);
                }
            }
            for (k, b) in v[0x1800..].iter_mut().enumerate() {
                *b = (k as u8).wrapping_add(((k >> 5) as u8).wrapping_mul(3));
            }
        }
    }
    v
}

fn build_oam(c: &Case) -> Vec<u8> {
    let mut o = vec![0u8; 0xa0];
    for (k, e) in c.oam.iter().take(40).enumerate() {
        o[k * 4..k * 4 + 4].copy_from_slice(e);
    }
    o
}

fn cut_sizes(n: u32, cuts: &[u16]) -> Vec<u32> {
    let mut pts: Vec<u32> = cuts.iter().map(|c| ((n as u64 * *c as u64) >> 16) as u32 / 4 * 4).filter(|p| *p > 0 && *p < n).collect();
    pts.sort();
    pts.dedup();
    let mut out = Vec::new();
    let mut prev = 0;
    for p in pts {
        out.push(p - prev);
        prev = p;
    }
    out.push(n - prev);
    out
}

fn setup(m: &mut i::M, c: &Case, vram: &[u8], oam: &[u8]) {
    m.reset_devices();
    m.core.memory.video_ram.copy_from_slice(vram);
    m.core.memory.oam_ram.copy_from_slice(oam);
    m.write(0xff40, c.lcdc | 0x81);
    m.write(0xff42, c.scy);
    m.write(0xff43, c.scx);
    m.write(0xff47, c.bgp);
    m.write(0xff48, c.obp0);
    m.write(0xff49, c.obp1);
    m.write(0xff4a, c.wy);
    m.write(0xff4b, c.wx);
}

/// change registers and OAM without resetting the device (done during the vertical blank)
fn rewrite(m: &mut i::M, c: &Case, vram: &[u8], oam: &[u8]) {
    m.core.memory.video_ram.copy_from_slice(vram);
    m.core.memory.oam_ram.copy_from_slice(oam);
    m.write(0xff40, c.lcdc | 0x81);
    m.write(0xff42, c.scy);
    m.write(0xff43, c.scx);
    m.write(0xff4a, c.wy);
    m.write(0xff4b, c.wx);
}

struct Machines {
    a: i::M,
    b: i::M,
}

fn describe(c: &Case, vram: &[u8], oam: &[u8], x: usize, y: usize) -> String {
    // which layers the reference sees at that pixel
    let r = regs_of(c);
    let mut parts = vec![];
    let win = r.lcdc & 0x20 != 0 && y >= r.wy as usize && x + 7 >= r.wx as usize && r.wx <= 166;
    parts.push(if win { "window".to_string() } else { "background".to_string() });
    let h = if r.lcdc & 4 != 0 { 16 } else { 8 };
    if r.lcdc & 2 != 0 {
        for i in 0..40 {
            let (oy, ox) = (oam[i * 4] as i32, oam[i * 4 + 1] as i32);
            let row = y as i32 + 16 - oy;
            let px = x as i32 + 8 - ox;
            if row >= 0 && row < h && px >= 0 && px < 8 {
                parts.push(format!("object {} (y={}, x={}, tile={:#04x}, attr={:#04x})", i, oy, ox, oam[i * 4 + 2], oam[i * 4 + 3]));
            }
        }
    }
    let _ = vram;
    parts.join(" + ")
}

fn regs_of(c: &Case) -> PpuRegs {
    PpuRegs { lcdc: c.lcdc | 0x81, scx: c.scx, scy: c.scy, wx: c.wx, wy: c.wy, bgp: c.bgp, obp0: c.obp0, obp1: c.obp1 }
}

fn exec(ms: &mut Machines, c: &Case, rec: &mut Rec, counting: bool) -> CaseResult {
    let vram = build_vram(c);
    let oam = build_oam(c);
    let regs = regs_of(c);
    let (want, st): (Vec<u8>, Stats) = render(&vram, &oam, &regs);
    if counting {
        rec.eval(1);
        let mut nt = false;
        let marks = [
            ("window-visible", st.window_pixels > 0),
            ("object-visible", st.object_pixels > 0),
            ("bg-over-obj", st.bg_over_obj_pixels > 0),
            ("more-than-ten-on-a-line", st.lines_with_more_than_ten > 0),
            ("flipped-object", st.flipped_object_pixels > 0),
            ("tall-object", st.tall_object_pixels > 0),
            ("overlapping-objects", st.overlapping_object_pixels > 0),
        ];
        for (n, on) in marks {
            if on {
                rec.class(n, 1);
                nt = true;
            }
        }
        if st.objects_partly_off_screen > 0 && st.object_pixels > 0 {
            rec.class("object-partly-off-screen", 1);
        }
        if c.wx < 7 && st.window_pixels > 0 {
            rec.class("wx-below-7", 1);
        }
        if c.wx > 166 && c.lcdc & 0x20 != 0 {
            rec.class("wx-above-166", 1);
        }
        if c.lcdc & 0x10 == 0 {
            rec.class("signed-tile-addressing", 1);
        }
        if !c.pre.is_empty() {
            rec.class("after-earlier-frames", 1);
            if c.pre.iter().any(|p| p.0 & 2 != 0) && c.lcdc & 2 == 0 {
                rec.class("objects-switched-off-between-frames", 1);
            }
            if c.pre.iter().any(|p| p.0 & 0x20 != 0) && c.lcdc & 0x20 == 0 {
                rec.class("window-switched-off-between-frames", 1);
            }
            if !c.pre_tiles.is_empty() {
                rec.class("tiles-rewritten-between-frames", 1);
                let last = c.pre.len() - 1;
                if c.pre_tiles.len() > last && (143u32 + c.pre[last].2 as u32) & 7 == c.scy as u32 & 7 {
                    rec.class("tiles-rewritten-and-same-tile-row-at-the-frame-seam", 1);
                }
            }
        }
        for bit in 1..7 {
            if c.lcdc & (1 << bit) != 0 {
                rec.class(&format!("lcdc-bit{}", bit), 1);
            }
        }
        if nt {
            rec.nontrivial(fnv(format!("{:?}", c).as_bytes()));
        }
    }
    let r = guarded(|| {
        // earlier frames with other settings: what is presented afterwards must not depend on them
        let mut first = true;
        for (k, (lcdc, scx, scy, wx, wy, poam)) in c.pre.iter().enumerate() {
            let pv = pre_vram(c, k, &vram);
            let mut pc = c.clone();
            pc.lcdc = *lcdc | 0x81;
            pc.scx = *scx;
            pc.scy = *scy;
            pc.wx = *wx;
            pc.wy = *wy;
            pc.oam = poam.clone();
            let po = build_oam(&pc);
            for m in [&mut ms.a, &mut ms.b] {
                if first {
                    setup(m, &pc, &pv, &po);
                } else {
                    rewrite(m, &pc, &pv, &po);
                }
            }
            first = false;
            for _ in 0..(70224 / 4) {
                ms.a.run_clocks(4);
            }
            for p in cut_sizes(70224, &c.cuts) {
                ms.b.run_clocks(p as usize);
            }
        }
        if first {
            setup(&mut ms.a, c, &vram, &oam);
            setup(&mut ms.b, c, &vram, &oam);
        } else {
            rewrite(&mut ms.a, c, &vram, &oam);
            rewrite(&mut ms.b, c, &vram, &oam);
        }
        for _ in 0..(70224 / 4) {
            ms.a.run_clocks(4);
        }
        for p in cut_sizes(70224, &c.cuts) {
            ms.b.run_clocks(p as usize);
        }
        let fa = ms.a.core.memory.io.video.get_visible_buffer().to_vec();
        let fb = ms.b.core.memory.io.video.get_visible_buffer().to_vec();
        (fa, fb)
    });
    let (fa, fb) = match r {
        Ok(v) => v,
        Err(msg) => return Err(Fail::new("panic", format!("rendering panicked: {}", msg))),
    };
    for (name, f) in [("4-clock batches", &fa), ("larger batches", &fb)] {
        if let Some(k) = (0..W * H).find(|k| f[*k] != want[*k]) {
            let (x, y) = (k % W, k / W);
            let layers = describe(c, &vram, &oam, x, y);
            let sig = if layers.contains("object") {
                if regs.lcdc & 4 != 0 {
                    "pixel-object-8x16"
                } else {
                    "pixel-object"
                }
            } else if layers.starts_with("window") {
                "pixel-window"
            } else {
                "pixel-background"
            };
            let ndiff = (0..W * H).filter(|k| f[*k] != want[*k]).count();
            return Err(Fail::new(sig, format!("{}: pixel ({}, {}) is shade {}, reference {} ({} pixels differ); layers there: {}; LCDC={:#04x} SCX={} SCY={} WX={} WY={}", name, x, y, f[k], want[k], ndiff, layers, regs.lcdc, c.scx, c.scy, c.wx, c.wy)));
        }
    }
    if fa != fb {
        return Err(Fail::new("batching-dependence", "the frame differs between 4-clock batches and larger batches".to_string()));
    }
    Ok(())
}

fn oam_entry() -> impl Strategy<Value = [u8; 4]> {
    let y = prop_oneof![4 => 0u8..168, 1 => any::<u8>(), 2 => prop::sample::select(vec![0u8, 1, 8, 9, 15, 16, 17, 143, 144, 152, 159, 160]), 3 => Just(60u8), 1 => 56u8..70];
    let x = prop_oneof![4 => 0u8..176, 1 => any::<u8>(), 2 => prop::sample::select(vec![0u8, 1, 7, 8, 9, 80, 159, 160, 161, 167, 168, 169]), 2 => Just(40u8)];
    let attr = prop_oneof![3 => prop::sample::select(vec![0u8, 0x10, 0x20, 0x40, 0x60, 0x80, 0x90, 0xf0]), 1 => any::<u8>()];
    (y, x, any::<u8>(), attr).prop_map(|(y, x, t, a)| [y, x, t, a])
}

fn case_strategy() -> impl Strategy<Value = Case> {
    let wx = prop_oneof![2 => 0u8..7, 4 => 7u8..=166, 1 => 167u8..=255];
    let wy = prop_oneof![4 => 0u8..144, 1 => any::<u8>()];
    let pal = prop_oneof![2 => Just(0xe4u8), 1 => Just(0x1bu8), 3 => any::<u8>()];
    (
        (any::<u64>(), 0u8..4, prop::collection::vec(oam_entry(), 0..=40)),
        (any::<u8>(), any::<u8>(), any::<u8>(), wx, wy),
        (pal.clone(), pal.clone(), pal, prop::collection::vec(any::<u16>(), 0..6)),
        prop_oneof![
            3 => Just(Vec::new()),
            2 => prop::collection::vec((any::<u8>(), any::<u8>(), any::<u8>(), any::<u8>(), 0u8..150, prop::collection::vec(oam_entry(), 0..=40)), 1..3),
        ],
    )
        .prop_map(|((vram_seed, vram_kind, oam), (lcdc, scx, scy, wx, wy), (bgp, obp0, obp1, cuts), mut pre)| {
            // half of the cases with earlier frames also rewrite the tile data between frames;
            // half of those line the last tile row of line 143 up with the first of line 0
            let mut pre_tiles = Vec::new();
            if !pre.is_empty() && vram_seed & 1 == 0 {
                for k in 0..pre.len() {
                    pre_tiles.push(crate::engine::splitmix(vram_seed ^ (k as u64 + 1)));
                }
                if vram_seed & 2 == 0 {
                    let last = pre.len() - 1;
                    pre[last].2 = scy.wrapping_add(1).wrapping_add((vram_seed >> 8) as u8 & 0xf8);
                    if vram_seed & 4 == 0 {
                        pre[last].1 = scx;
                    }
                }
            }
            Case { vram_seed, vram_kind, oam, lcdc: lcdc | 0x81, scx, scy, wx, wy, bgp, obp0, obp1, cuts, pre, pre_tiles }
        })
}

// ---------------------------------------------------------------------------
// whole-core layer: the guest program itself builds the scene

/// A ROM whose program copies the tile data and maps from ROM bank 1 into video RAM, the
/// object table into OAM (directly, or into work RAM and from there by OAM DMA), writes the
/// LCD registers and then halts with every interrupt source disabled.
fn scene_rom(c: &Case, vram: &[u8], oam: &[u8], via_dma: bool) -> crate::rom::RomImage {
    let mut rom = std_rom();
    rom.bytes[0x4000..0x6000].copy_from_slice(vram);
    rom.bytes[0x3000..0x30a0].copy_from_slice(oam);
    let mut p: Vec<u8> = vec![0xf3, 0x31, 0xf0, 0xdf];
    // LD HL,0x4000; LD DE,0x8000; LD BC,0x2000; L: LD A,(HL+); LD (DE),A; INC DE; DEC BC; LD A,B; OR C; JR NZ,L
    p.extend([0x21, 0x00, 0x40, 0x11, 0x00, 0x80, 0x01, 0x00, 0x20, 0x2a, 0x12, 0x13, 0x0b, 0x78, 0xb1, 0x20, 0xf8]);
    // LD HL,0x3000; LD DE,dst; LD B,160; L: LD A,(HL+); LD (DE),A; INC DE; DEC B; JR NZ,L
    let dst: u16 = if via_dma { 0xc100 } else { 0xfe00 };
    p.extend([0x21, 0x00, 0x30, 0x11, dst as u8, (dst >> 8) as u8, 0x06, 0xa0, 0x2a, 0x12, 0x13, 0x05, 0x20, 0xfa]);
    if via_dma {
        // LD A,0xC1; LDH (46),A; LD A,0x30; L: DEC A; JR NZ,L
        p.extend([0x3e, 0xc1, 0xe0, 0x46, 0x3e, 0x30, 0x3d, 0x20, 0xfd]);
    }
    for (reg, v) in [(0x42u8, c.scy), (0x43, c.scx), (0x47, c.bgp), (0x48, c.obp0), (0x49, c.obp1), (0x4a, c.wy), (0x4b, c.wx), (0x40, c.lcdc | 0x81)] {
        p.extend([0x3e, v, 0xe0, reg]);
    }
    // IF = IE = 0; HALT; NOP; JR back to the HALT
    p.extend([0xaf, 0xe0, 0x0f, 0xe0, 0xff, 0x76, 0x00, 0x18, 0xfc]);
    rom.bytes[0x100..0x104].copy_from_slice(&[0x00, 0xc3, 0x50, 0x01]);
    rom.bytes[0x150..0x150 + p.len()].copy_from_slice(&p);
    rom.fix_checksum();
    rom
}

fn core_json(c: &Case, mode: u8, via_dma: bool) -> Value {
    json!({"kind": "core-frame", "mode": mode, "via_dma": via_dma, "case": c})
}

/// mode 0: interpreter build, update() per instruction; 1: interpreter build, block-stepped;
/// 2: jit build, block-stepped
fn exec_core(c: &Case, mode: u8, via_dma: bool, rec: &mut Rec, counting: bool) -> CaseResult {
    use crate::mach::{j, RUN};
    let vram = build_vram(c);
    let oam = build_oam(c);
    let rom = scene_rom(c, &vram, &oam, via_dma);
    let mut boxed: Box<dyn Emu> = if mode == 2 { Box::new(j::M::new(&rom)) } else { Box::new(i::M::new(&rom)) };
    let a: &mut dyn Emu = &mut *boxed;
    let r = guarded(|| {
        let mut steps = 0u32;
        while a.run_state() == RUN && steps < 200_000 {
            if mode == 0 {
                a.step_update();
            } else {
                a.step_block();
            }
            steps += 1;
        }
        let halted = a.run_state() != RUN;
        // two whole frames and a bit, one machine cycle per step
        for _ in 0..(2 * 70224 / 4 + 600) {
            a.step_update();
        }
        halted
    });
    let halted = match r {
        Ok(h) => h,
        Err(msg) => return Err(Fail::new("core-panic", format!("the scene program panicked the core: {}", msg))),
    };
    let regions = a.regions();
    let get = |n: &str| regions.iter().find(|(k, _)| *k == n).map(|(_, b)| b.to_vec()).unwrap_or_default();
    let (cv, co, frame) = (get("vram"), get("oam"), get("frame_visible"));
    if counting {
        rec.eval(1);
        rec.class("core-frame", 1);
        rec.class(["core-frame-update", "core-frame-interpreter-blocks", "core-frame-jit-blocks"][mode as usize % 3], 1);
        if via_dma {
            rec.class("core-frame-oam-by-dma", 1);
        }
    }
    if !halted || cv[..] != vram[..] || co[..160] != oam[..160] {
        // the scene did not arrive in video RAM / OAM as written: C10 / C16 / C04 judge that
        if counting {
            rec.class("core-frame-scene-not-as-written (not judged here)", 1);
        }
        return Ok(());
    }
    let regs = regs_of(c);
    let (want, st) = render(&vram, &oam, &regs);
    if counting && (st.window_pixels > 0 || st.object_pixels > 0) {
        rec.nontrivial(fnv(format!("core{}{}{:?}", mode, via_dma, c).as_bytes()));
    }
    if let Some(k) = (0..W * H).find(|k| frame[*k] != want[*k]) {
        let (x, y) = (k % W, k / W);
        let layers = describe(c, &vram, &oam, x, y);
        let ndiff = (0..W * H).filter(|k| frame[*k] != want[*k]).count();
        let sig = if layers.contains("object") { "core-pixel-object" } else if layers.starts_with("window") { "core-pixel-window" } else { "core-pixel-background" };
        return Err(Fail::new(sig, format!("scene built by the guest program ({}, OAM {}), two frames later: pixel ({}, {}) of the presented frame is shade {}, reference {} ({} pixels differ); layers there: {}; LCDC={:#04x} SCX={} SCY={} WX={} WY={}", ["interpreter, update()", "interpreter, block-stepped", "jit, block-stepped"][mode as usize % 3], if via_dma { "by DMA" } else { "stored directly" }, x, y, frame[k], want[k], ndiff, layers, regs.lcdc, c.scx, c.scy, c.wx, c.wy)));
    }
    Ok(())
}

fn core_layer(rec: &mut Rec) {
    let jit_ok = rec.ctx.nshards < 4 || rec.ctx.shard % 2 == 0;
    let cases = rec.ctx.tier.pick(10u32, 1500);
    let strat = (case_strategy(), 0u8..3, any::<bool>());
    fn to_json(v: &(Case, u8, bool)) -> Value {
        core_json(&v.0, v.1, v.2)
    }
    run_generated(rec, "coreframes", cases, strat, to_json, |(c, mode, via_dma), rec, counting| {
        let mode = if *mode == 2 && !jit_ok { 1 } else { *mode };
        if counting {
            rec.current(&core_json(c, mode, *via_dma).to_string());
        }
        exec_core(c, mode, *via_dma, rec, counting)
    });
}

fn run(rec: &mut Rec) {
    let rom = std_rom();
    let mut ms = Machines { a: i::M::new(&rom), b: i::M::new(&rom) };
    let cases = rec.ctx.tier.pick(2500u32, 60_000);
    let cell = std::cell::RefCell::new(&mut ms);
    run_generated(rec, "frames", cases, case_strategy(), case_json, |c, rec, counting| {
        if counting {
            rec.current(&case_json(c).to_string());
        }
        exec(&mut cell.borrow_mut(), c, rec, counting)
    });
    core_layer(rec);
    rec.sample(|| {
        case_json(&Case { vram_seed: 1, vram_kind: 2, oam: vec![[16, 8, 3, 0], [20, 12, 2, 0x80]], lcdc: 0xf7, scx: 3, scy: 250, wx: 87, wy: 40, bgp: 0xe4, obp0: 0xe4, obp1: 0x1b, cuts: vec![0x8000], pre: vec![], pre_tiles: vec![] })
    });
}

fn replay(case: &Value, rec: &mut Rec) {
    if case.get("kind").and_then(|k| k.as_str()) == Some("core-frame") {
        let c: Case = match case.get("case").cloned().and_then(|v| serde_json::from_value(v).ok()) {
            Some(c) => c,
            None => {
                rec.inconclusive("replay case is not a C15 frame");
                return;
            }
        };
        let mode = case.get("mode").and_then(|v| v.as_u64()).unwrap_or(0) as u8 % 3;
        let via_dma = case.get("via_dma").and_then(|v| v.as_bool()).unwrap_or(false);
        rec.current(&case.to_string());
        if let Err(f) = exec_core(&c, mode, via_dma, rec, true) {
            rec.violation(&f.sig, core_json(&c, mode, via_dma), f.detail);
        }
        return;
    }
    let c: Case = match case.get("case").cloned().and_then(|v| serde_json::from_value(v).ok()) {
        Some(c) => c,
        None => {
            rec.inconclusive("replay case is not a C15 frame");
            return;
        }
    };
    let rom = std_rom();
    let mut ms = Machines { a: i::M::new(&rom), b: i::M::new(&rom) };
    if let Err(f) = exec(&mut ms, &c, rec, true) {
        rec.violation(&f.sig, case_json(&c), f.detail);
    }
}
