//! Check engine: sharded forked workers, evidence and replay writers,
//! known-finding matching, proptest glue.

use proptest::strategy::{Strategy, ValueTree};
use proptest::test_runner::{Config, RngAlgorithm, TestError, TestRng, TestRunner};
use serde::{Deserialize, Serialize};
use serde_json::{json, Value};
use std::cell::{Cell, RefCell};
use std::collections::{BTreeMap, BTreeSet, HashSet};
use std::io::Write;
use std::path::PathBuf;
use std::time::Instant;

/// root of the verification tree: where KNOWN_FINDINGS.txt, regressions/, findings/ are read
/// and replays/, evidence/, .work/ are written (the driver exports its own directory)
pub fn verif_root() -> String {
    std::env::var("VERIF_ROOT").ok().filter(|s| !s.is_empty()).unwrap_or_else(|| "/verif".to_string())
}
const SHM_SIZE: usize = 1 << 20;
const MAX_SAMPLES_PER_SHARD: usize = 6;
const MAX_SIGS: usize = 24;

#[derive(Clone, Copy, Debug, PartialEq, Eq)]
pub enum Tier {
    Quick,
    Thorough,
}

impl Tier {
    pub fn name(self) -> &'static str {
        match self {
            Tier::Quick => "quick",
            Tier::Thorough => "thorough",
        }
    }
    pub fn pick<T>(self, quick: T, thorough: T) -> T {
        match self {
            Tier::Quick => quick,
            Tier::Thorough => thorough,
        }
    }
}

#[derive(Clone, Debug)]
pub struct Ctx {
    pub prop: &'static str,
    pub tier: Tier,
    pub seed: u64,
    pub shard: usize,
    pub nshards: usize,
}

impl Ctx {
    /// does this shard own item `i` of an enumeration
    pub fn mine(&self, i: usize) -> bool {
        i % self.nshards == self.shard
    }
    pub fn derived_seed(&self, salt: &str) -> [u8; 32] {
        let mut out = [0u8; 32];
        let mut h = fnv(self.prop.as_bytes()) ^ self.seed.wrapping_mul(0x9e3779b97f4a7c15);
        h ^= fnv(salt.as_bytes()).rotate_left(17);
        h ^= (self.shard as u64).wrapping_mul(0xbf58476d1ce4e5b9);
        for chunk in out.chunks_mut(8) {
            h = splitmix(h);
            chunk.copy_from_slice(&h.to_le_bytes());
        }
        out
    }
}

pub fn fnv(bytes: &[u8]) -> u64 {
    let mut h = 0xcbf29ce484222325u64;
    for b in bytes {
        h ^= *b as u64;
        h = h.wrapping_mul(0x100000001b3);
    }
    h
}

pub fn splitmix(x: u64) -> u64 {
    let mut z = x.wrapping_add(0x9e3779b97f4a7c15);
    z = (z ^ (z >> 30)).wrapping_mul(0xbf58476d1ce4e5b9);
    z = (z ^ (z >> 27)).wrapping_mul(0x94d049bb133111eb);
    z ^ (z >> 31)
}

/// fast hash of a byte slice (word-wise), for digests
pub fn hash_bytes(mut h: u64, bytes: &[u8]) -> u64 {
    let mut chunks = bytes.chunks_exact(8);
    for c in &mut chunks {
        let w = u64::from_le_bytes([c[0], c[1], c[2], c[3], c[4], c[5], c[6], c[7]]);
        h = (h ^ w).wrapping_mul(0x9e3779b97f4a7c15).rotate_left(29);
    }
    for b in chunks.remainder() {
        h = (h ^ *b as u64).wrapping_mul(0x100000001b3);
    }
    h
}

#[derive(Clone, Debug, Serialize, Deserialize)]
pub struct Violation {
    pub sig: String,
    pub case: Value,
    pub detail: String,
    #[serde(default)]
    pub count: u64,
}

#[derive(Default, Serialize, Deserialize)]
pub struct ShardResult {
    pub evaluations: u64,
    pub nt_direct: u64,
    pub nt_set: Vec<u64>,
    pub samples: Vec<Value>,
    pub classes: BTreeMap<String, u64>,
    pub excluded_known: u64,
    pub violations: Vec<Violation>,
    pub notes: Vec<String>,
    pub exhaustive_parts: Vec<String>,
    pub inconclusive: Vec<String>,
}

/// Per-shard recorder handed to a check.
pub struct Rec {
    pub ctx: Ctx,
    pub res: ShardResult,
    nt_set: HashSet<u64>,
    samples_seen: u64,
    shm: *mut u8,
    pub known_sigs: BTreeSet<String>,
}

impl Rec {
    /// a recorder that is not part of a run (fuzz targets, tools)
    pub fn scratch(prop: &'static str) -> Rec {
        Rec::new(Ctx { prop, tier: Tier::Quick, seed: 0, shard: 0, nshards: 1 }, alloc_shm())
    }
    fn new(ctx: Ctx, shm: *mut u8) -> Rec {
        let known_sigs = known_findings(ctx.prop).into_iter().map(|f| f.sig).collect();
        Rec { ctx, res: ShardResult::default(), nt_set: HashSet::new(), samples_seen: 0, shm, known_sigs }
    }
    pub fn eval(&mut self, n: u64) {
        self.res.evaluations += n;
    }
    /// count a case that is non-trivial; distinctness via its fingerprint
    pub fn nontrivial(&mut self, fp: u64) {
        self.nt_set.insert(fp);
    }
    /// count `n` non-trivial cases that are distinct by construction (enumeration)
    pub fn nontrivial_direct(&mut self, n: u64) {
        self.res.nt_direct += n;
    }
    pub fn class(&mut self, name: &str, n: u64) {
        *self.res.classes.entry(name.to_string()).or_insert(0) += n;
    }
    pub fn excluded(&mut self, n: u64) {
        self.res.excluded_known += n;
    }
    pub fn note(&mut self, s: impl Into<String>) {
        self.res.notes.push(s.into());
    }
    pub fn exhaustive_part(&mut self, s: impl Into<String>) {
        self.res.exhaustive_parts.push(s.into());
    }
    pub fn inconclusive(&mut self, s: impl Into<String>) {
        self.res.inconclusive.push(s.into());
    }
    /// keep the first few cases plus a deterministic reservoir of the rest
    pub fn sample(&mut self, make: impl FnOnce() -> Value) {
        self.samples_seen += 1;
        if self.res.samples.len() < MAX_SAMPLES_PER_SHARD {
            self.res.samples.push(make());
        } else {
            let r = splitmix(self.samples_seen ^ 0x51ed) % self.samples_seen;
            if (r as usize) < MAX_SAMPLES_PER_SHARD && r >= 3 {
                self.res.samples[r as usize] = make();
            }
        }
    }
    pub fn has_sig(&self, sig: &str) -> bool {
        self.res.violations.iter().any(|v| v.sig == sig)
    }
    pub fn too_many(&self) -> bool {
        self.res.violations.len() >= MAX_SIGS
    }
    /// record a violation; de-duplicated by signature (root-cause class)
    pub fn violation(&mut self, sig: &str, case: Value, detail: impl Into<String>) {
        if let Some(v) = self.res.violations.iter_mut().find(|v| v.sig == sig) {
            v.count += 1;
            return;
        }
        if self.res.violations.len() >= MAX_SIGS {
            return;
        }
        self.res.violations.push(Violation { sig: sig.to_string(), case, detail: detail.into(), count: 1 });
    }
    /// Breadcrumb for crash attribution: a replayable case (JSON text) that is
    /// about to be executed. Survives the death of this process.
    pub fn current(&mut self, case_json: &str) {
        let bytes = case_json.as_bytes();
        let n = bytes.len().min(SHM_SIZE - 16);
        unsafe {
            std::ptr::copy_nonoverlapping(bytes.as_ptr(), self.shm.add(16), n);
            std::ptr::write_volatile(self.shm as *mut u64, n as u64);
        }
    }
    /// cheap progress counter stored next to the breadcrumb
    pub fn progress(&mut self, v: u64) {
        unsafe { std::ptr::write_volatile((self.shm as *mut u64).add(1), v) }
    }
}

pub struct Finding {
    pub sig: String,
    pub text: String,
}

/// open findings of a property from the committed KNOWN_FINDINGS.txt
pub fn known_findings(prop: &str) -> Vec<Finding> {
    let path = format!("{}/KNOWN_FINDINGS.txt", verif_root());
    let text = std::fs::read_to_string(path).unwrap_or_default();
    let mut out = Vec::new();
    for line in text.lines() {
        let line = line.trim();
        let rest = match line.strip_prefix("finding:") {
            Some(r) => r.trim(),
            None => continue,
        };
        let mut it = rest.splitn(3, ' ');
        let p = it.next().unwrap_or("");
        let s = it.next().unwrap_or("");
        let t = it.next().unwrap_or("");
        if p == format!("property={}", prop) {
            if let Some(sig) = s.strip_prefix("sig=") {
                out.push(Finding { sig: sig.to_string(), text: t.to_string() });
            }
        }
    }
    out
}

pub type CheckFn = fn(&mut Rec);
pub type ReplayFn = fn(&Value, &mut Rec);

pub struct CheckDef {
    pub id: &'static str,
    pub run: CheckFn,
    pub replay: ReplayFn,
    pub rule: &'static str,
    pub assumptions: &'static [&'static str],
    /// class counters that must be non-zero for the run to count (else exit 2)
    pub required_classes: &'static [&'static str],
    /// true when the quick tier enumerates a finite space completely
    pub exhaustive: bool,
}

fn redirect_stdout_devnull() {
    unsafe {
        let fd = libc::open(b"/dev/null\0".as_ptr() as *const libc::c_char, libc::O_WRONLY);
        if fd >= 0 {
            libc::dup2(fd, 1);
            libc::close(fd);
        }
    }
}

/// Pin a worker to one CPU. The code under test calls mprotect twice per
/// translated block; a process that migrates between CPUs accumulates them in
/// its TLB-shootdown mask and every mprotect then interrupts all of them, which
/// makes 16 workers slower than one. Failure to pin is harmless.
fn pin_to_cpu(shard: usize) {
    unsafe {
        let mut allowed: libc::cpu_set_t = std::mem::zeroed();
        if libc::sched_getaffinity(0, std::mem::size_of::<libc::cpu_set_t>(), &mut allowed) != 0 {
            return;
        }
        let cpus: Vec<usize> = (0..libc::CPU_SETSIZE as usize).filter(|c| libc::CPU_ISSET(*c, &allowed)).collect();
        if cpus.is_empty() {
            return;
        }
        let mut set: libc::cpu_set_t = std::mem::zeroed();
        libc::CPU_SET(cpus[shard % cpus.len()], &mut set);
        libc::sched_setaffinity(0, std::mem::size_of::<libc::cpu_set_t>(), &set);
    }
}

fn work_dir() -> PathBuf {
    let p = PathBuf::from(format!("{}/.work", verif_root()));
    let _ = std::fs::create_dir_all(&p);
    p
}

fn jobs() -> usize {
    if let Ok(v) = std::env::var("VERIF_JOBS") {
        if let Ok(n) = v.parse::<usize>() {
            return n.max(1);
        }
    }
    std::thread::available_parallelism().map(|n| n.get()).unwrap_or(4).min(16)
}

struct Child {
    pid: libc::pid_t,
    shard: usize,
    shm: *mut u8,
    out: PathBuf,
}

fn read_breadcrumb(shm: *mut u8) -> (String, u64) {
    unsafe {
        let n = std::ptr::read_volatile(shm as *const u64) as usize;
        let prog = std::ptr::read_volatile((shm as *const u64).add(1));
        let n = n.min(SHM_SIZE - 16);
        let slice = std::slice::from_raw_parts(shm.add(16), n);
        (String::from_utf8_lossy(slice).to_string(), prog)
    }
}

fn alloc_shm() -> *mut u8 {
    unsafe {
        let p = libc::mmap(
            std::ptr::null_mut(),
            SHM_SIZE,
            libc::PROT_READ | libc::PROT_WRITE,
            libc::MAP_SHARED | libc::MAP_ANONYMOUS,
            -1,
            0,
        );
        assert!(p != libc::MAP_FAILED);
        p as *mut u8
    }
}

/// Run `body` in a forked child with stdout silenced; returns Ok(result json text)
/// or Err((description, breadcrumb, progress)) when the child died.
fn spawn_shard(def: &'static CheckDef, ctx: Ctx, replay_case: Option<Value>) -> Child {
    let shm = alloc_shm();
    let out = work_dir().join(format!("{}.{}.{}.json", def.id, std::process::id(), ctx.shard));
    let _ = std::fs::remove_file(&out);
    let shard = ctx.shard;
    let pid = unsafe { libc::fork() };
    assert!(pid >= 0, "fork failed");
    if pid == 0 {
        // child
        redirect_stdout_devnull();
        pin_to_cpu(shard);
        let mut rec = Rec::new(ctx, shm);
        let result = std::panic::catch_unwind(std::panic::AssertUnwindSafe(|| {
            match &replay_case {
                Some(case) => (def.replay)(case, &mut rec),
                None => {
                    if rec.ctx.shard == 0 {
                        replay_committed(def, &mut rec);
                    }
                    (def.run)(&mut rec)
                }
            }
        }));
        if let Err(e) = result {
            let msg = if let Some(s) = e.downcast_ref::<String>() {
                s.clone()
            } else if let Some(s) = e.downcast_ref::<&str>() {
                s.to_string()
            } else {
                "panic".to_string()
            };
            let (crumb, _) = read_breadcrumb(shm);
            let case = serde_json::from_str::<Value>(&crumb).unwrap_or(json!({ "breadcrumb": crumb }));
            rec.violation("harness-panic", case, format!("uncaught panic in shard: {}", msg));
        }
        rec.res.nt_set = rec.nt_set.iter().cloned().collect();
        let text = serde_json::to_string(&rec.res).unwrap();
        let tmp = out.with_extension("tmp");
        std::fs::write(&tmp, text).unwrap();
        std::fs::rename(&tmp, &out).unwrap();
        unsafe { libc::_exit(0) };
    }
    Child { pid, shard, shm, out }
}

fn wait_children(children: &[Child], deadline_s: u64) -> Vec<Result<ShardResult, (String, String, u64)>> {
    let start = Instant::now();
    let mut done: Vec<Option<Result<ShardResult, (String, String, u64)>>> = children.iter().map(|_| None).collect();
    loop {
        let mut pending = 0;
        for (i, c) in children.iter().enumerate() {
            if done[i].is_some() {
                continue;
            }
            let mut status: libc::c_int = 0;
            let r = unsafe { libc::waitpid(c.pid, &mut status, libc::WNOHANG) };
            if r == 0 {
                pending += 1;
                continue;
            }
            let res = if libc::WIFEXITED(status) && libc::WEXITSTATUS(status) == 0 && c.out.exists() {
                let text = std::fs::read_to_string(&c.out).unwrap();
                let _ = std::fs::remove_file(&c.out);
                Ok(serde_json::from_str::<ShardResult>(&text).unwrap())
            } else {
                let (crumb, prog) = read_breadcrumb(c.shm);
                let how = if libc::WIFSIGNALED(status) {
                    format!("killed by signal {}", libc::WTERMSIG(status))
                } else {
                    format!("exit status {}", libc::WEXITSTATUS(status))
                };
                Err((how, crumb, prog))
            };
            done[i] = Some(res);
        }
        if pending == 0 {
            break;
        }
        if start.elapsed().as_secs() > deadline_s {
            for (i, c) in children.iter().enumerate() {
                if done[i].is_none() {
                    unsafe { libc::kill(c.pid, libc::SIGKILL) };
                    let mut status = 0;
                    unsafe { libc::waitpid(c.pid, &mut status, 0) };
                    let (crumb, prog) = read_breadcrumb(c.shm);
                    done[i] = Some(Err(("watchdog".to_string(), crumb, prog)));
                }
            }
            break;
        }
        std::thread::sleep(std::time::Duration::from_millis(5));
    }
    done.into_iter().map(|d| d.unwrap()).collect()
}

/// Seconds-long replay tier: committed shrunk inputs of repaired defects
/// (regressions/<id>/) and witnesses of open findings (findings/<id>/).
fn replay_committed(def: &'static CheckDef, rec: &mut Rec) {
    for sub in ["regressions", "findings"] {
        let dir = format!("{}/{}/{}", verif_root(), sub, def.id);
        let mut files: Vec<PathBuf> = match std::fs::read_dir(&dir) {
            Ok(rd) => rd.filter_map(|e| e.ok()).map(|e| e.path()).filter(|p| p.extension().map(|x| x == "json").unwrap_or(false)).collect(),
            Err(_) => continue,
        };
        files.sort();
        for f in files {
            let text = match std::fs::read_to_string(&f) {
                Ok(t) => t,
                Err(_) => continue,
            };
            let doc: Value = match serde_json::from_str(&text) {
                Ok(v) => v,
                Err(_) => continue,
            };
            let case = doc.get("case").cloned().unwrap_or(doc.clone());
            rec.current(&case.to_string());
            (def.replay)(&case, rec);
            rec.class(&format!("replayed-{}", sub), 1);
        }
    }
}

pub struct Outcome {
    pub exit: i32,
}

fn sig_fp(sig: &str, case: &Value) -> String {
    format!("{:016x}", fnv(format!("{}|{}", sig, case).as_bytes()))
}

fn write_replay(prop: &str, v: &Violation) -> String {
    let dir = format!("{}/replays/{}", verif_root(), prop);
    let _ = std::fs::create_dir_all(&dir);
    let clean: String = v.sig.chars().map(|c| if c.is_ascii_alphanumeric() || c == '-' || c == '_' { c } else { '_' }).take(60).collect();
    let path = format!("{}/{}-{}.json", dir, clean, &sig_fp(&v.sig, &v.case)[..8]);
    let body = json!({ "property": prop, "sig": v.sig, "case": v.case, "detail": v.detail, "occurrences": v.count });
    std::fs::write(&path, serde_json::to_string_pretty(&body).unwrap()).unwrap();
    path
}

/// Runs a whole check (all shards), writes evidence, prints result lines.
pub fn run_check(def: &'static CheckDef, tier: Tier, seed: u64) -> Outcome {
    let t0 = Instant::now();
    let n = jobs();
    let mut children = Vec::new();
    for shard in 0..n {
        let ctx = Ctx { prop: def.id, tier, seed, shard, nshards: n };
        children.push(spawn_shard(def, ctx, None));
    }
    let deadline = tier.pick(3600, 12 * 3600);
    let results = wait_children(&children, deadline);
    finish(def, tier, seed, results, t0, None)
}

pub fn run_replay(def: &'static CheckDef, path: &str) -> Outcome {
    let t0 = Instant::now();
    let text = match std::fs::read_to_string(path) {
        Ok(t) => t,
        Err(e) => {
            eprintln!("cannot read replay file {}: {}", path, e);
            return Outcome { exit: 2 };
        }
    };
    let doc: Value = match serde_json::from_str(&text) {
        Ok(v) => v,
        Err(e) => {
            eprintln!("replay file is not JSON: {}", e);
            return Outcome { exit: 2 };
        }
    };
    let case = doc.get("case").cloned().unwrap_or(doc.clone());
    let ctx = Ctx { prop: def.id, tier: Tier::Quick, seed: 0, shard: 0, nshards: 1 };
    let child = spawn_shard(def, ctx, Some(case));
    let results = wait_children(&[child], 600);
    finish(def, Tier::Quick, 0, results, t0, Some(path.to_string()))
}

fn finish(
    def: &'static CheckDef,
    tier: Tier,
    seed: u64,
    results: Vec<Result<ShardResult, (String, String, u64)>>,
    t0: Instant,
    replay_of: Option<String>,
) -> Outcome {
    let mut evaluations = 0u64;
    let mut nt_direct = 0u64;
    let mut nt_set: HashSet<u64> = HashSet::new();
    let mut samples: Vec<Value> = Vec::new();
    let mut classes: BTreeMap<String, u64> = BTreeMap::new();
    let mut excluded = 0u64;
    let mut violations: Vec<Violation> = Vec::new();
    let mut notes: BTreeSet<String> = BTreeSet::new();
    let mut parts: BTreeSet<String> = BTreeSet::new();
    let mut inconclusive: Vec<String> = Vec::new();
    let nshards = results.len();
    for (shard, r) in results.into_iter().enumerate() {
        match r {
            Ok(res) => {
                evaluations += res.evaluations;
                nt_direct += res.nt_direct;
                nt_set.extend(res.nt_set.iter().cloned());
                for s in res.samples {
                    if samples.len() < 16 {
                        samples.push(s);
                    }
                }
                for (k, v) in res.classes {
                    *classes.entry(k).or_insert(0) += v;
                }
                excluded += res.excluded_known;
                for v in res.violations {
                    if let Some(e) = violations.iter_mut().find(|e| e.sig == v.sig) {
                        e.count += v.count;
                    } else {
                        violations.push(v);
                    }
                }
                notes.extend(res.notes);
                parts.extend(res.exhaustive_parts);
                inconclusive.extend(res.inconclusive);
            }
            Err((how, crumb, prog)) => {
                if how == "watchdog" {
                    inconclusive.push(format!("shard {} exceeded the watchdog; last case: {}", shard, crumb));
                } else {
                    let case = serde_json::from_str::<Value>(&crumb).unwrap_or(json!({ "breadcrumb": crumb }));
                    let mut case = case;
                    if let Value::Object(m) = &mut case {
                        m.insert("crash_progress".into(), json!(prog));
                    }
                    let kind = case.get("kind").and_then(|k| k.as_str()).unwrap_or("case").to_string();
                    violations.push(Violation {
                        sig: format!("crash-{}", kind),
                        case,
                        detail: format!("worker process {} while executing this case (host process not intact)", how),
                        count: 1,
                    });
                }
            }
        }
    }
    let distinct_nontrivial = nt_direct + nt_set.len() as u64;
    let known = known_findings(def.id);
    let mut exit = 0;
    let mut reported = 0u64;
    let mut known_hit: BTreeSet<String> = BTreeSet::new();
    for v in &violations {
        if let Some(f) = known.iter().find(|f| f.sig == v.sig) {
            if known_hit.insert(f.sig.clone()) {
                println!("KNOWN-FINDING: property={} sig={} {}", def.id, f.sig, f.text);
            }
        } else {
            let path = write_replay(def.id, v);
            println!("VIOLATION property={} replay={}", def.id, path);
            eprintln!("  [{}] {} (x{})", v.sig, v.detail, v.count);
            reported += 1;
            exit = 1;
        }
    }
    if replay_of.is_none() {
        for c in def.required_classes {
            if classes.get(*c).cloned().unwrap_or(0) == 0 {
                inconclusive.push(format!("generator did not reach required class '{}'", c));
            }
        }
    }
    if !inconclusive.is_empty() && exit == 0 {
        exit = 2;
    }
    for m in &inconclusive {
        eprintln!("INCONCLUSIVE {}: {}", def.id, m);
    }
    let wall = t0.elapsed().as_secs_f64();
    if replay_of.is_none() {
        let mut assumptions: Vec<String> = def.assumptions.iter().map(|s| s.to_string()).collect();
        assumptions.extend(notes.iter().cloned());
        let ev = json!({
            "property_id": def.id,
            "tier": tier.name(),
            "seed": seed,
            "level": "exploration",
            "coverage": {
                "evaluations": evaluations,
                "distinct_nontrivial": distinct_nontrivial,
                "rule": def.rule,
                "samples": samples,
                "exhaustive": def.exhaustive && exit == 0,
                "exhaustive_parts": parts,
                "classes": classes,
                "excluded_known": excluded,
                "shards": nshards,
                "known_findings_reproduced": known_hit,
                "inconclusive": inconclusive,
            },
            "assumptions": assumptions,
            "wall_s": (wall * 1000.0).round() / 1000.0,
            "violations": reported,
        });
        let dir = format!("{}/evidence", verif_root());
        let _ = std::fs::create_dir_all(&dir);
        let path = format!("{}/{}.json", dir, def.id);
        let tmp = format!("{}.tmp", path);
        std::fs::write(&tmp, serde_json::to_string_pretty(&ev).unwrap()).unwrap();
        std::fs::rename(&tmp, &path).unwrap();
    }
    let _ = std::io::stdout().flush();
    eprintln!(
        "{} {}: {} evaluations, {} distinct non-trivial, {} violation(s), {} known, {:.1}s, exit {}",
        def.id,
        tier.name(),
        evaluations,
        distinct_nontrivial,
        reported,
        known_hit.len(),
        wall,
        exit
    );
    Outcome { exit }
}

// ---------------------------------------------------------------------------
// proptest glue

#[derive(Clone, Debug)]
pub struct Fail {
    pub sig: String,
    pub detail: String,
}

impl Fail {
    pub fn new(sig: impl Into<String>, detail: impl Into<String>) -> Fail {
        Fail { sig: sig.into(), detail: detail.into() }
    }
}

pub type CaseResult = Result<(), Fail>;

/// Runs `cases` generated cases of `strategy` through `test`. On a failure the
/// case is shrunk by proptest, recorded as a violation (by signature), and the
/// search continues with that signature tolerated, so one shallow defect does
/// not hide others. `test` gets `counting = true` only for first-time executions
/// (not for shrink re-runs), so evidence counters are not inflated.
pub fn run_generated<S, F>(rec: &mut Rec, salt: &str, cases: u32, strategy: S, to_json: fn(&S::Value) -> Value, mut test: F)
where
    S: Strategy,
    S::Value: Clone + std::fmt::Debug,
    F: FnMut(&S::Value, &mut Rec, bool) -> CaseResult,
{
    let mut remaining = cases;
    let mut round = 0u32;
    let tolerated: RefCell<BTreeSet<String>> = RefCell::new(BTreeSet::new());
    for s in rec.known_sigs.iter() {
        tolerated.borrow_mut().insert(s.clone());
    }
    while remaining > 0 && round < 12 {
        let seed = rec.ctx.derived_seed(&format!("{}#{}", salt, round));
        let config = Config {
            cases: remaining,
            failure_persistence: None,
            max_shrink_iters: 4096,
            max_global_rejects: 65536,
            ..Config::default()
        };
        let mut runner = TestRunner::new_with_rng(config, TestRng::from_seed(RngAlgorithm::ChaCha, &seed));
        let failed = Cell::new(false);
        let executed = Cell::new(0u32);
        let rec_cell = RefCell::new(&mut *rec);
        let test_cell = RefCell::new(&mut test);
        let last_fail: RefCell<Option<Fail>> = RefCell::new(None);
        let result = runner.run(&strategy, |value| {
            let counting = !failed.get();
            let mut rec = rec_cell.borrow_mut();
            let mut t = test_cell.borrow_mut();
            let r = (*t)(&value, &mut **rec, counting);
            if counting {
                executed.set(executed.get() + 1);
            }
            match r {
                Ok(()) => Ok(()),
                Err(f) => {
                    if counting && tolerated.borrow().contains(&f.sig) {
                        rec.excluded(1);
                        return Ok(());
                    }
                    if !counting && tolerated.borrow().contains(&f.sig) {
                        // while shrinking: do not wander into an already known class
                        return Ok(());
                    }
                    failed.set(true);
                    *last_fail.borrow_mut() = Some(f.clone());
                    Err(proptest::test_runner::TestCaseError::fail(f.sig))
                }
            }
        });
        drop(rec_cell);
        drop(test_cell);
        match result {
            Ok(()) => {
                break;
            }
            Err(TestError::Fail(_, minimal)) => {
                // re-run the minimal case once to get its signature and detail
                let f = match test(&minimal, rec, false) {
                    Err(f) => f,
                    Ok(()) => last_fail.borrow().clone().unwrap_or(Fail::new("flaky", "failure did not reproduce on the shrunk case")),
                };
                rec.violation(&f.sig, to_json(&minimal), f.detail.clone());
                tolerated.borrow_mut().insert(f.sig.clone());
                if let Some(lf) = last_fail.borrow().clone() {
                    tolerated.borrow_mut().insert(lf.sig);
                }
                remaining = remaining.saturating_sub(executed.get().max(1));
                round += 1;
                if rec.too_many() {
                    break;
                }
            }
            Err(TestError::Abort(reason)) => {
                rec.inconclusive(format!("proptest aborted ({}): {}", salt, reason));
                break;
            }
        }
    }
}

/// A deterministic RNG from the library (proptest's TestRng) for bulk random
/// operands inside enumerations.
pub fn bulk_rng(ctx: &Ctx, salt: &str) -> TestRng {
    TestRng::from_seed(RngAlgorithm::ChaCha, &ctx.derived_seed(salt))
}

/// Generate one value from a strategy without shrinking (for samples etc).
pub fn generate_one<S: Strategy>(ctx: &Ctx, salt: &str, strategy: &S) -> S::Value {
    let mut runner = TestRunner::new_with_rng(Config::default(), bulk_rng(ctx, salt));
    strategy.new_tree(&mut runner).unwrap().current()
}

pub fn hex(bytes: &[u8]) -> String {
    let mut s = String::with_capacity(bytes.len() * 2);
    for b in bytes {
        s.push_str(&format!("{:02x}", b));
    }
    s
}

pub fn unhex(s: &str) -> Vec<u8> {
    let s = s.as_bytes();
    let mut out = Vec::new();
    let mut i = 0;
    while i + 1 < s.len() {
        let h = (s[i] as char).to_digit(16).unwrap_or(0) as u8;
        let l = (s[i + 1] as char).to_digit(16).unwrap_or(0) as u8;
        out.push(h << 4 | l);
        i += 2;
    }
    out
}

/// Used by the coverage-guided fuzz targets (harness/fuzz): save the failing
/// case as an ordinary replay file, print the VIOLATION line, then abort the
/// fuzzing process so that libFuzzer keeps its own artifact as well.
pub fn fuzz_violation(prop: &str, sig: &str, case: Value, detail: &str) {
    if known_findings(prop).iter().any(|f| f.sig == sig) {
        // a listed finding: tolerated in-target so that the campaign goes on
        // (the deterministic tier prints its KNOWN-FINDING line)
        return;
    }
    let v = Violation { sig: format!("fuzz-{}", sig), case, detail: detail.to_string(), count: 1 };
    let path = write_replay(prop, &v);
    println!("VIOLATION property={} replay={}", prop, path);
    eprintln!("  [{}] {}", v.sig, v.detail);
    let _ = std::io::stdout().flush();
    std::process::abort();
}

/// libfuzzer-sys installs a panic hook that aborts the process; the oracles catch
/// expected panics of the code under test (rejections at load, refused opcodes),
/// so the fuzz targets replace that hook once.
pub fn fuzz_init() {
    static ONCE: std::sync::Once = std::sync::Once::new();
    ONCE.call_once(|| {
        std::panic::set_hook(Box::new(|_| {}));
    });
}
