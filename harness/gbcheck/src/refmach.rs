//! Reference machine: the independent SM83 model (models::sm83) and interrupt
//! model (models::irq) driving a *twin* instance of the emulator's bus and
//! devices. The CPU side (what executes, how long it takes, when interrupts are
//! taken, how much time the devices receive) is entirely the models'; only the
//! memory map and device behaviour behind the bus come from the repository
//! (they have their own checks: C10, C13-C17).

use crate::checks::common::{cpu_from_regs, regs_from_cpu};
use crate::mach::{Emu, Regs, HALTED, IME_DISABLED, IME_ENABLED, IME_ENABLE_NEXT, RUN, STOPPED};
use models::irq::{dispatch, Ime, IrqBus, IrqCpu, Outcome as IrqOutcome, Run};
use models::sm83::{self, Bus, Cpu, Ctl};

pub struct RefMachine<M: Emu> {
    pub t: M,
    pub cpu: Cpu,
    pub ime: Ime,
    pub run: Run,
    /// machine cycles charged but not yet delivered to the devices (interrupt dispatch)
    pub carried: u32,
}

#[derive(Clone, Debug)]
pub struct StepInfo {
    /// an instruction was executed (false: the CPU was halted / stopped)
    pub executed: bool,
    pub opcode: u8,
    pub ctl: Ctl,
    /// machine cycles of the instruction itself
    pub instr_cycles: u32,
    /// clocks delivered to the devices in this step
    pub clocks: u64,
    pub irq: IrqOutcome,
    /// run state before the interrupt check
    pub was_suspended: bool,
    /// bus writes of the instruction (not the dispatch)
    pub writes: Vec<(u16, u8)>,
    /// the instruction is outside the checked domain (undefined opcode, or HALT
    /// executed while an enabled interrupt is already pending)
    pub out_of_domain: Option<&'static str>,
}

struct CpuBus<'a> {
    m: &'a mut dyn Emu,
    writes: Vec<(u16, u8)>,
}
impl<'a> Bus for CpuBus<'a> {
    fn read(&mut self, addr: u16) -> u8 {
        self.m.read(addr)
    }
    fn write(&mut self, addr: u16, value: u8) {
        self.writes.push((addr, value));
        self.m.write(addr, value)
    }
}
struct IrqTwin<'a> {
    m: &'a mut dyn Emu,
}
impl<'a> IrqBus for IrqTwin<'a> {
    fn write(&mut self, addr: u16, value: u8) {
        self.m.write(addr, value)
    }
    fn pending(&mut self) -> u8 {
        self.m.read(0xff0f) & self.m.read(0xffff) & 0x1f
    }
    fn ack(&mut self, bit: u8) {
        let v = self.m.read(0xff0f) & 0x1f & !bit;
        self.m.write(0xff0f, v);
    }
}

/// regions the emulator executes code from with fetch = data read (C10)
pub fn executable(pc: u16) -> bool {
    pc < 0x8000 || (0xc000..0xe000).contains(&pc) || (0xff80..0xffff).contains(&pc)
}

pub fn ime_code(v: Ime) -> u8 {
    match v {
        Ime::Enabled => IME_ENABLED,
        Ime::Disabled => IME_DISABLED,
        Ime::EnableNext => IME_ENABLE_NEXT,
    }
}
pub fn ime_model(v: u8) -> Ime {
    match v {
        IME_ENABLED => Ime::Enabled,
        IME_DISABLED => Ime::Disabled,
        _ => Ime::EnableNext,
    }
}
pub fn run_code(v: Run) -> u8 {
    match v {
        Run::Run => RUN,
        Run::Stop => STOPPED,
        Run::Halt => HALTED,
    }
}
pub fn run_model(v: u8) -> Run {
    match v {
        RUN => Run::Run,
        STOPPED => Run::Stop,
        _ => Run::Halt,
    }
}

impl<M: Emu> RefMachine<M> {
    /// wrap a twin machine; CPU state is taken from the twin's registers
    pub fn new(t: M) -> Self {
        let r = t.regs();
        let ime = ime_model(t.ime());
        let run = run_model(t.run_state());
        RefMachine { cpu: cpu_from_regs(&r), ime, run, carried: r.cycles, t }
    }

    pub fn set_regs(&mut self, r: &Regs) {
        self.cpu = cpu_from_regs(r);
        self.carried = r.cycles;
    }

    pub fn regs(&self) -> Regs {
        regs_from_cpu(&self.cpu, self.carried)
    }

    pub fn pending(&mut self) -> u8 {
        self.t.read(0xff0f) & self.t.read(0xffff) & 0x1f
    }

    /// One emulator step in instruction-stepped mode: one instruction (or one
    /// machine cycle while suspended), devices caught up, then the interrupt check.
    pub fn step_instruction(&mut self) -> StepInfo {
        let mut info = StepInfo {
            executed: false,
            opcode: 0,
            ctl: Ctl::None,
            instr_cycles: 0,
            clocks: 0,
            irq: IrqOutcome::Nothing,
            was_suspended: self.run != Run::Run,
            writes: vec![],
            out_of_domain: None,
        };
        if self.run == Run::Run {
            if !executable(self.cpu.pc) {
                info.out_of_domain = Some("executing outside ROM / work RAM / high RAM");
                return info;
            }
            let op = self.t.read(self.cpu.pc);
            info.opcode = op;
            if sm83::is_undefined(op) {
                info.out_of_domain = Some("undefined opcode");
                return info;
            }
            if op == 0x76 && self.pending() != 0 {
                info.out_of_domain = Some("HALT executed while an enabled interrupt is pending");
                return info;
            }
            let mut bus = CpuBus { m: &mut self.t, writes: vec![] };
            let out = sm83::step(&mut self.cpu, &mut bus);
            info.writes = bus.writes;
            info.executed = true;
            info.ctl = out.ctl;
            info.instr_cycles = out.cycles;
            // EI takes effect once the instruction after it has completed
            if self.ime == Ime::EnableNext {
                self.ime = Ime::Enabled;
            }
            match out.ctl {
                Ctl::None => {}
                Ctl::Halt => self.run = Run::Halt,
                Ctl::Stop => self.run = Run::Stop,
                Ctl::Di => self.ime = Ime::Disabled,
                Ctl::Ei => {
                    if self.ime == Ime::Disabled {
                        self.ime = Ime::EnableNext;
                    }
                }
                Ctl::Reti => self.ime = Ime::Enabled,
            }
            let cycles = out.cycles + self.carried;
            self.carried = 0;
            info.clocks = 4 * cycles as u64;
        } else {
            info.clocks = 4 + 4 * self.carried as u64;
            self.carried = 0;
        }
        self.t.run_clocks(info.clocks as usize);
        info.was_suspended = self.run != Run::Run;
        let mut ic = IrqCpu { pc: self.cpu.pc, sp: self.cpu.sp, ime: self.ime, run: self.run, cycles: 0 };
        info.irq = dispatch(&mut ic, &mut IrqTwin { m: &mut self.t });
        self.cpu.pc = ic.pc;
        self.cpu.sp = ic.sp;
        self.ime = ic.ime;
        self.run = ic.run;
        self.carried += ic.cycles;
        info
    }

    /// the next instruction is outside the checked domain (None: it is inside)
    pub fn next_out_of_domain(&mut self) -> Option<&'static str> {
        if self.run != Run::Run {
            return None;
        }
        if !executable(self.cpu.pc) {
            return Some("executing outside ROM / work RAM / high RAM");
        }
        let op = self.t.read(self.cpu.pc);
        if sm83::is_undefined(op) {
            return Some("undefined opcode");
        }
        if op == 0x76 && self.pending() != 0 {
            return Some("HALT executed while an enabled interrupt is pending");
        }
        None
    }

    /// One emulator step in block-stepped mode when the emulator has already made its step
    /// and delivered `clocks` to the devices: the reference executes whole instructions until
    /// it has consumed exactly that much time (cycles carried over from a dispatch included),
    /// and in no case beyond the next block terminator. How long a block is - where the
    /// emulator chooses to end one short of a terminator - is thereby left to the emulator;
    /// what is fixed is that a block is a whole number of instructions, that the devices are
    /// caught up once after it and that the interrupt check follows. If the time cannot be met
    /// exactly the returned `clocks` differs from what was delivered, which the caller reports.
    pub fn step_block_as(&mut self, clocks: u64) -> StepInfo {
        if self.run != Run::Run {
            return self.step_instruction();
        }
        let mut info = StepInfo {
            executed: false,
            opcode: 0,
            ctl: Ctl::None,
            instr_cycles: 0,
            clocks: 0,
            irq: IrqOutcome::Nothing,
            was_suspended: false,
            writes: vec![],
            out_of_domain: None,
        };
        let mut cycles = self.carried;
        loop {
            if let Some(why) = self.next_out_of_domain() {
                info.out_of_domain = Some(why);
                return info;
            }
            let op = self.t.read(self.cpu.pc);
            info.opcode = op;
            let mut bus = CpuBus { m: &mut self.t, writes: vec![] };
            let out = sm83::step(&mut self.cpu, &mut bus);
            info.writes.extend(bus.writes);
            info.executed = true;
            info.ctl = out.ctl;
            cycles += out.cycles;
            info.instr_cycles += out.cycles;
            if out.terminator || 4 * cycles as u64 >= clocks {
                break;
            }
        }
        self.carried = 0;
        match info.ctl {
            Ctl::None => {}
            Ctl::Halt => self.run = Run::Halt,
            Ctl::Stop => self.run = Run::Stop,
            Ctl::Di => self.ime = Ime::Disabled,
            Ctl::Ei | Ctl::Reti => self.ime = Ime::Enabled,
        }
        info.clocks = 4 * cycles as u64;
        self.t.run_clocks(info.clocks as usize);
        info.was_suspended = self.run != Run::Run;
        let mut ic = IrqCpu { pc: self.cpu.pc, sp: self.cpu.sp, ime: self.ime, run: self.run, cycles: 0 };
        info.irq = dispatch(&mut ic, &mut IrqTwin { m: &mut self.t });
        self.cpu.pc = ic.pc;
        self.cpu.sp = ic.sp;
        self.ime = ic.ime;
        self.run = ic.run;
        self.carried += ic.cycles;
        info
    }

    /// One emulator step in block-stepped mode: instructions up to and including
    /// the next block terminator (or the end of the fetch region), devices caught
    /// up once, then the interrupt check. EI at the end of a block takes effect
    /// at the block boundary.
    pub fn step_block(&mut self, max_instr: usize) -> StepInfo {
        if self.run != Run::Run {
            // a suspended CPU is advanced one machine cycle at a time in every mode
            return self.step_instruction();
        }
        let mut info = StepInfo {
            executed: false,
            opcode: 0,
            ctl: Ctl::None,
            instr_cycles: 0,
            clocks: 0,
            irq: IrqOutcome::Nothing,
            was_suspended: false,
            writes: vec![],
            out_of_domain: None,
        };
        let mut cycles = self.carried;
        let start = self.cpu.pc;
        let mut n = 0;
        loop {
            if !executable(self.cpu.pc) {
                info.out_of_domain = Some("executing outside ROM / work RAM / high RAM");
                return info;
            }
            let op = self.t.read(self.cpu.pc);
            info.opcode = op;
            if sm83::is_undefined(op) {
                info.out_of_domain = Some("undefined opcode");
                return info;
            }
            if op == 0x76 && self.pending() != 0 {
                info.out_of_domain = Some("HALT executed while an enabled interrupt is pending");
                return info;
            }
            let mut bus = CpuBus { m: &mut self.t, writes: vec![] };
            let out = sm83::step(&mut self.cpu, &mut bus);
            info.writes.extend(bus.writes);
            info.executed = true;
            info.ctl = out.ctl;
            cycles += out.cycles;
            info.instr_cycles += out.cycles;
            n += 1;
            if out.terminator || n >= max_instr {
                break;
            }
            // a block started in ROM never extends past its 16 KiB region, and an
            // instruction that reaches into the next region is a block of its own
            if start < 0x8000 && (self.cpu.pc ^ start) & 0xc000 != 0 {
                break;
            }
            let pc = self.cpu.pc;
            if pc < 0x8000 && (pc & 0x3fff) >= 0x3ffe {
                let op = self.t.read(pc);
                if sm83::length(op) as u16 > 0x4000 - (pc & 0x3fff) {
                    break;
                }
            }
        }
        self.carried = 0;
        match info.ctl {
            Ctl::None => {}
            Ctl::Halt => self.run = Run::Halt,
            Ctl::Stop => self.run = Run::Stop,
            Ctl::Di => self.ime = Ime::Disabled,
            Ctl::Ei | Ctl::Reti => self.ime = Ime::Enabled,
        }
        info.clocks = 4 * cycles as u64;
        self.t.run_clocks(info.clocks as usize);
        info.was_suspended = self.run != Run::Run;
        let mut ic = IrqCpu { pc: self.cpu.pc, sp: self.cpu.sp, ime: self.ime, run: self.run, cycles: 0 };
        info.irq = dispatch(&mut ic, &mut IrqTwin { m: &mut self.t });
        self.cpu.pc = ic.pc;
        self.cpu.sp = ic.sp;
        self.ime = ic.ime;
        self.run = ic.run;
        self.carried += ic.cycles;
        info
    }
}
