//! Uniform access to the emulator under test, once per build of /repo:
//! `j` = built with the `jit` feature (gbjit), `i` = interpreter only (gbint).

use crate::rom::{memfd_with, RomImage};
use std::fs::File;

#[derive(Clone, Copy, Debug, PartialEq, Eq, Default, serde::Serialize, serde::Deserialize)]
pub struct Regs {
    pub af: u32,
    pub bc: u32,
    pub de: u32,
    pub hl: u32,
    pub sp: u32,
    pub pc: u32,
    pub cycles: u32,
}

pub const IME_ENABLED: u8 = 1;
pub const IME_DISABLED: u8 = 0;
pub const IME_ENABLE_NEXT: u8 = 2;
pub const RUN: u8 = 0;
pub const STOPPED: u8 = 1;
pub const HALTED: u8 = 2;

/// A saved machine state that can be restored cheaply between cases.
#[derive(Clone)]
pub struct Snapshot {
    pub regs: Regs,
    pub ime: u8,
    pub run_state: u8,
    pub vram: Vec<u8>,
    pub cart_ram: Vec<u8>,
    pub wram: Vec<u8>,
    pub oam: Vec<u8>,
    pub hram: Vec<u8>,
    /// bank-register and I/O writes replayed (in order) after a device reset
    pub pokes: Vec<(u16, u8)>,
}

pub trait Emu {
    fn regs(&self) -> Regs;
    fn set_regs(&mut self, r: &Regs);
    fn ime(&self) -> u8;
    fn set_ime(&mut self, v: u8);
    fn run_state(&self) -> u8;
    fn set_run_state(&mut self, v: u8);
    fn read(&mut self, addr: u16) -> u8;
    fn write(&mut self, addr: u16, v: u8);
    fn read_word(&mut self, addr: u16) -> u16;
    fn write_word(&mut self, addr: u16, v: u16);
    fn if_bits(&self) -> u8;
    fn ie_bits(&self) -> u8;
    fn set_if(&mut self, v: u8);
    fn set_ie(&mut self, v: u8);
    fn step_block(&mut self);
    fn step_update(&mut self);
    fn step_interp(&mut self);
    fn handle_interrupt(&mut self);
    fn run_frame(&mut self);
    fn run_clocks(&mut self, n: usize);
    fn last_block_cycles(&self) -> usize;
    /// interpreter::run_code_block on the raw registers (no device catch-up)
    fn interp_block(&mut self) -> u8;
    /// interpreter::run_next_op (None = end of executable section)
    fn interp_op(&mut self) -> Option<(u8, bool)>;
    fn rom(&mut self) -> &mut [u8];
    fn regions(&self) -> Vec<(&'static str, &[u8])>;
    fn scalars(&self) -> Vec<(&'static str, u64)>;
    fn rom_bank(&self) -> usize;
    fn ram_bank(&self) -> usize;
    fn trace_enable(&mut self, on: bool);
    fn trace_take(&mut self) -> Vec<(u8, u16, u8)>;
    fn serial_take(&mut self) -> Vec<u8>;
    fn clocks_total(&self) -> u64;
    fn snapshot(&self, pokes: Vec<(u16, u8)>) -> Snapshot;
    fn restore(&mut self, s: &Snapshot);
    fn reset_devices(&mut self);
    fn fill_ram(&mut self, seed: u64);
    fn press(&mut self, button: u8, down: bool);
    // jit build only
    fn translate(&mut self, _ip: usize) -> usize {
        unimplemented!()
    }
    fn call(&mut self, _offset: usize) -> u8 {
        unimplemented!()
    }
    /// like `call`, but entered through a shim that plants sentinel values in the
    /// host's callee-saved registers and checks them, and the stack pointer, afterwards
    fn call_checked(&mut self, _offset: usize) -> (u8, Option<String>) {
        unimplemented!()
    }
    fn cache_reset(&mut self) {}
    fn cache_used(&self) -> usize {
        0
    }
    fn cache_lookup(&self, _ip: usize) -> Option<usize> {
        None
    }
    fn is_jit(&self) -> bool {
        false
    }
}

macro_rules! machine_impl {
    ($modname:ident, $k:ident, $jit:tt) => {
        pub mod $modname {
            use super::*;
            use $k::cart::Header;
            use $k::devices::io::IO;
            use $k::devices::joypad::Button;
            use $k::emulator::{Core, InterruptState, RunState};
            use $k::mem::{memory_read_byte, memory_read_word, memory_write_byte, memory_write_word, MemoryAreas};
            use $k::timing::ClockCycles;

            pub struct M {
                pub core: Box<Core>,
                pub header: Header,
                pub file: File,
            }

            impl M {
                pub fn new(rom: &RomImage) -> M {
                    let mut file = memfd_with(&rom.bytes);
                    let header = $k::system::read_header(&mut file).expect("header");
                    let header2 = $k::system::read_header(&mut file).expect("header");
                    let core = Box::new(Core::from_rom_file(&mut file, header2));
                    M { core, header, file }
                }
                /// the repository's own test constructor (16 KiB ROM, 4 KiB work RAM)
                pub fn with_code(code: &[u8]) -> Box<Core> {
                    Box::new(Core::with_code_block(code.to_vec().into_boxed_slice()))
                }
                fn mem_ptr(&mut self) -> *mut MemoryAreas {
                    &mut self.core.memory as *mut MemoryAreas
                }
            }

            impl Emu for M {
                fn regs(&self) -> Regs {
                    let r = &self.core.registers;
                    Regs { af: r.af, bc: r.bc, de: r.de, hl: r.hl, sp: r.sp, pc: r.ip, cycles: r.cycles }
                }
                fn set_regs(&mut self, v: &Regs) {
                    let r = &mut self.core.registers;
                    r.af = v.af;
                    r.bc = v.bc;
                    r.de = v.de;
                    r.hl = v.hl;
                    r.sp = v.sp;
                    r.ip = v.pc;
                    r.cycles = v.cycles;
                }
                fn ime(&self) -> u8 {
                    match self.core.interrupts_enabled {
                        InterruptState::Enabled => IME_ENABLED,
                        InterruptState::Disabled => IME_DISABLED,
                        InterruptState::EnableNext => IME_ENABLE_NEXT,
                    }
                }
                fn set_ime(&mut self, v: u8) {
                    self.core.interrupts_enabled = match v {
                        IME_ENABLED => InterruptState::Enabled,
                        IME_DISABLED => InterruptState::Disabled,
                        _ => InterruptState::EnableNext,
                    };
                }
                fn run_state(&self) -> u8 {
                    match self.core.run_state {
                        RunState::Run => RUN,
                        RunState::Stop => STOPPED,
                        RunState::Halt => HALTED,
                    }
                }
                fn set_run_state(&mut self, v: u8) {
                    self.core.run_state = match v {
                        RUN => RunState::Run,
                        STOPPED => RunState::Stop,
                        _ => RunState::Halt,
                    };
                }
                fn read(&mut self, addr: u16) -> u8 {
                    memory_read_byte(self.mem_ptr(), addr)
                }
                fn write(&mut self, addr: u16, v: u8) {
                    memory_write_byte(self.mem_ptr(), addr, v)
                }
                fn read_word(&mut self, addr: u16) -> u16 {
                    memory_read_word(self.mem_ptr(), addr)
                }
                fn write_word(&mut self, addr: u16, v: u16) {
                    memory_write_word(self.mem_ptr(), addr, v)
                }
                fn if_bits(&self) -> u8 {
                    self.core.memory.io.interrupt_flag.as_u8()
                }
                fn ie_bits(&self) -> u8 {
                    self.core.memory.io.interrupt_mask
                }
                fn set_if(&mut self, v: u8) {
                    self.core.memory.io.interrupt_flag = $k::devices::interrupts::InterruptFlag::new(v);
                }
                fn set_ie(&mut self, v: u8) {
                    self.core.memory.io.interrupt_mask = v;
                }
                fn step_block(&mut self) {
                    self.core.run_code_block()
                }
                fn step_update(&mut self) {
                    self.core.update()
                }
                fn step_interp(&mut self) {
                    self.core.run_interp()
                }
                fn handle_interrupt(&mut self) {
                    self.core.handle_interrupt()
                }
                fn run_frame(&mut self) {
                    self.core.run_frame()
                }
                fn run_clocks(&mut self, n: usize) {
                    self.core.memory.run_clock_cycles(ClockCycles(n))
                }
                fn last_block_cycles(&self) -> usize {
                    self.core.last_block_cycle_length
                }
                fn interp_block(&mut self) -> u8 {
                    let p = self.mem_ptr();
                    $k::interpreter::run_code_block(&mut self.core.registers, p)
                }
                fn interp_op(&mut self) -> Option<(u8, bool)> {
                    let p = self.mem_ptr();
                    $k::interpreter::run_next_op(&mut self.core.registers, p)
                }
                fn rom(&mut self) -> &mut [u8] {
                    &mut self.core.memory.rom[..]
                }
                fn regions(&self) -> Vec<(&'static str, &[u8])> {
                    let m = &self.core.memory;
                    vec![
                        ("vram", &m.video_ram[..]),
                        ("cart_ram", &m.cart_ram[..]),
                        ("wram", &m.work_ram[..]),
                        ("oam", &m.oam_ram[..]),
                        ("hram", &m.high_ram[..]),
                        ("frame_visible", &m.io.video.get_visible_buffer()[..]),
                        ("frame_writing", &m.io.video.get_writing_buffer()[..]),
                    ]
                }
                fn scalars(&self) -> Vec<(&'static str, u64)> {
                    let c = &self.core;
                    let m = &c.memory;
                    let io = &m.io;
                    let r = &c.registers;
                    let (mode, dots, line) = io.video.verif_position();
                    let (ja, jd, jsa, jsd, jl) = io.joypad.verif_state();
                    let dma = match m.verif_dma_state() {
                        Some((src, off)) => 0x1_0000_0000u64 | (src as u64) << 8 | off as u64,
                        None => 0,
                    };
                    vec![
                        ("af", r.af as u64),
                        ("bc", r.bc as u64),
                        ("de", r.de as u64),
                        ("hl", r.hl as u64),
                        ("sp", r.sp as u64),
                        ("pc", r.ip as u64),
                        ("pending_cycles", r.cycles as u64),
                        ("ime", self.ime() as u64),
                        ("run_state", self.run_state() as u64),
                        ("if", io.interrupt_flag.as_u8() as u64),
                        ("ie", io.interrupt_mask as u64),
                        ("rom_bank", m.cart_state.get_rom_bank() as u64),
                        ("ram_bank", m.cart_state.get_ram_bank() as u64),
                        ("divider", io.timer.verif_cycle_count() as u64 & 0xffff),
                        ("tima", io.timer.get_counter() as u64),
                        ("tma", io.timer.get_modulo() as u64),
                        ("tac", io.timer.get_timer_control() as u64),
                        ("lcd_mode", mode as u64),
                        ("lcd_dots", dots as u64),
                        ("lcd_line", line as u64),
                        ("stat", io.video.get_lcd_status() as u64),
                        ("lyc", io.video.get_ly_compare() as u64),
                        ("lcdc", io.video.get_lcd_control() as u64),
                        ("scy", io.video.get_scroll_y() as u64),
                        ("scx", io.video.get_scroll_x() as u64),
                        ("wy", io.video.get_window_y() as u64),
                        ("wx", io.video.get_window_x() as u64),
                        ("bgp", io.video.get_bgp() as u64),
                        ("obp0", io.video.get_obj_palette(0) as u64),
                        ("obp1", io.video.get_obj_palette(1) as u64),
                        ("dma", dma),
                        ("joypad", (ja as u64) | (jd as u64) << 8 | (jsa as u64) << 16 | (jsd as u64) << 17 | (jl as u64) << 18),
                        ("serial", io.serial.get_data() as u64 | (io.serial.get_control() as u64) << 8),
                    ]
                }
                fn rom_bank(&self) -> usize {
                    self.core.memory.cart_state.get_rom_bank()
                }
                fn ram_bank(&self) -> usize {
                    self.core.memory.cart_state.get_ram_bank()
                }
                fn trace_enable(&mut self, on: bool) {
                    $k::mem::verif::trace_enable(on)
                }
                fn trace_take(&mut self) -> Vec<(u8, u16, u8)> {
                    $k::mem::verif::trace_take()
                }
                fn serial_take(&mut self) -> Vec<u8> {
                    $k::devices::serial::verif::log_take()
                }
                fn clocks_total(&self) -> u64 {
                    $k::mem::verif::clocks_total()
                }
                fn snapshot(&self, pokes: Vec<(u16, u8)>) -> Snapshot {
                    let m = &self.core.memory;
                    Snapshot {
                        regs: self.regs(),
                        ime: self.ime(),
                        run_state: self.run_state(),
                        vram: m.video_ram.to_vec(),
                        cart_ram: m.cart_ram.to_vec(),
                        wram: m.work_ram.to_vec(),
                        oam: m.oam_ram.to_vec(),
                        hram: m.high_ram.to_vec(),
                        pokes,
                    }
                }
                fn restore(&mut self, s: &Snapshot) {
                    self.reset_devices();
                    {
                        let m = &mut self.core.memory;
                        m.video_ram.copy_from_slice(&s.vram);
                        m.cart_ram.copy_from_slice(&s.cart_ram);
                        m.work_ram.copy_from_slice(&s.wram);
                        m.oam_ram.copy_from_slice(&s.oam);
                        m.high_ram.copy_from_slice(&s.hram);
                    }
                    for (a, v) in &s.pokes {
                        self.write(*a, *v);
                    }
                    self.set_regs(&s.regs);
                    self.set_ime(s.ime);
                    self.set_run_state(s.run_state);
                }
                fn reset_devices(&mut self) {
                    let m = &mut self.core.memory;
                    m.io = IO::new();
                    m.oam_dma = None;
                    m.oam_dma_register = 0xff;
                    m.cart_state = self.header.create_cart_state();
                    self.core.last_block_cycle_length = 0;
                }
                fn fill_ram(&mut self, seed: u64) {
                    let m = &mut self.core.memory;
                    let mut x = crate::engine::splitmix(seed);
                    let mut fill = |buf: &mut [u8]| {
                        for chunk in buf.chunks_mut(8) {
                            x = crate::engine::splitmix(x);
                            let b = x.to_le_bytes();
                            let n = chunk.len();
                            chunk.copy_from_slice(&b[..n]);
                        }
                    };
                    fill(&mut m.video_ram);
                    fill(&mut m.cart_ram);
                    fill(&mut m.work_ram);
                    fill(&mut m.oam_ram);
                    fill(&mut m.high_ram);
                }
                fn press(&mut self, button: u8, down: bool) {
                    let b = match button & 7 {
                        0 => Button::A,
                        1 => Button::B,
                        2 => Button::Select,
                        3 => Button::Start,
                        4 => Button::Right,
                        5 => Button::Left,
                        6 => Button::Up,
                        _ => Button::Down,
                    };
                    if down {
                        self.core.memory.io.joypad.press_button(b)
                    } else {
                        self.core.memory.io.joypad.release_button(b)
                    }
                }
                machine_impl!(@jit $k, $jit);
            }
        }
    };
    (@jit $k:ident, true) => {
        fn translate(&mut self, ip: usize) -> usize {
            let core = &mut *self.core;
            let mem = core.memory.as_ptr();
            core.cache.translate_code_block(&core.memory.rom, ip, mem)
        }
        fn call(&mut self, offset: usize) -> u8 {
            let core = &mut *self.core;
            core.cache.call(offset, &mut core.registers)
        }
        fn call_checked(&mut self, offset: usize) -> (u8, Option<String>) {
            let core = &mut *self.core;
            let (prologue, epilogue) = core.cache.verif_entry_points();
            let block = core.cache.get_memory_start_address() + offset;
            let regs = &mut core.registers as *mut _ as *mut u8;
            unsafe { crate::mach::call_with_sentinels(prologue, regs, block, epilogue) }
        }
        fn cache_reset(&mut self) {
            self.core.cache = $k::cache::CodeCache::new();
        }
        fn cache_used(&self) -> usize {
            self.core.cache.verif_cached_blocks().1
        }
        fn cache_lookup(&self, ip: usize) -> Option<usize> {
            self.core.cache.get_address_for_ip(ip)
        }
        fn is_jit(&self) -> bool {
            true
        }
    };
    (@jit $k:ident, false) => {};
}

machine_impl!(j, gbjit, true);
machine_impl!(i, gbint, false);

/// First difference between two machines' observable state (None = equal).
pub fn diff_state(a: &dyn Emu, b: &dyn Emu, skip: &[&str]) -> Option<String> {
    let sa = a.scalars();
    let sb = b.scalars();
    for ((n, x), (_, y)) in sa.iter().zip(sb.iter()) {
        if skip.contains(n) {
            continue;
        }
        if x != y {
            return Some(format!("{}: {:#x} vs {:#x}", n, x, y));
        }
    }
    let ra = a.regions();
    let rb = b.regions();
    for ((n, x), (_, y)) in ra.iter().zip(rb.iter()) {
        if skip.contains(n) {
            continue;
        }
        if x != y {
            let idx = x.iter().zip(y.iter()).position(|(p, q)| p != q).unwrap_or(x.len().min(y.len()));
            return Some(format!(
                "{}[{:#x}]: {:#04x} vs {:#04x}",
                n,
                idx,
                x.get(idx).cloned().unwrap_or(0),
                y.get(idx).cloned().unwrap_or(0)
            ));
        }
    }
    None
}

/// 64-bit digest of the observable state
pub fn digest(a: &dyn Emu, skip: &[&str]) -> u64 {
    let mut h = 0x1234_5678_9abc_def0u64;
    for (n, x) in a.scalars() {
        if skip.contains(&n) {
            continue;
        }
        h = crate::engine::splitmix(h ^ x);
    }
    for (n, x) in a.regions() {
        if skip.contains(&n) {
            continue;
        }
        h = crate::engine::hash_bytes(h, x);
    }
    h
}

/// in: [0..6] sentinels for rbx, rbp, r12, r13, r14, r15; out: [6] rsp after the
/// call, [7] rsp at the call site, [8] rsp to restore, [9..15] the six registers after
#[no_mangle]
static mut GBCHECK_SENTINELS: [u64; 16] = [0; 16];

/// Enter translated code the way `CodeCache::call` does (prologue(registers,
/// block, epilogue) in the sysv64 convention), but from a shim that owns every
/// callee-saved host register: it loads known values into them, calls, and
/// records what came back. The shim restores its own registers and stack pointer
/// from memory, so even an unbalanced callee returns control here.
pub unsafe fn call_with_sentinels(prologue: usize, regs: *mut u8, block: usize, epilogue: usize) -> (u8, Option<String>) {
    let want: [u64; 6] = [0x1111_2222_3333_4444, 0x5555_6666_7777_8888, 0x9999_aaaa_bbbb_cccc, 0xdddd_eeee_ffff_0001, 0x0f1e_2d3c_4b5a_6978, 0x8877_6655_4433_2211];
    let p = std::ptr::addr_of_mut!(GBCHECK_SENTINELS) as *mut u64;
    for k in 0..6 {
        *p.add(k) = want[k];
    }
    let status: u64;
    core::arch::asm!(
        "push rbx", "push rbp", "push r12", "push r13", "push r14", "push r15",
        "lea rcx, [rip + {sent}]",
        "mov [rcx + 64], rsp",
        "and rsp, -16",
        "mov [rcx + 56], rsp",
        "mov rbx, [rcx]", "mov rbp, [rcx + 8]", "mov r12, [rcx + 16]", "mov r13, [rcx + 24]", "mov r14, [rcx + 32]", "mov r15, [rcx + 40]",
        "call r8",
        "lea rcx, [rip + {sent}]",
        "mov [rcx + 48], rsp",
        "mov [rcx + 72], rbx", "mov [rcx + 80], rbp", "mov [rcx + 88], r12", "mov [rcx + 96], r13", "mov [rcx + 104], r14", "mov [rcx + 112], r15",
        "mov rsp, [rcx + 64]",
        "pop r15", "pop r14", "pop r13", "pop r12", "pop rbp", "pop rbx",
        sent = sym GBCHECK_SENTINELS,
        in("rdi") regs, in("rsi") block, in("rdx") epilogue, in("r8") prologue,
        lateout("rax") status,
        clobber_abi("sysv64"),
    );
    let names = ["rbx", "rbp", "r12", "r13", "r14", "r15"];
    let mut problem = None;
    for k in 0..6 {
        let got = *p.add(9 + k);
        if got != want[k] {
            problem = Some(format!("host register {} was not preserved by the translated call: {:#018x} on entry, {:#018x} on return", names[k], want[k], got));
            break;
        }
    }
    if problem.is_none() && *p.add(6) != *p.add(7) {
        problem = Some(format!("host stack pointer not restored by the translated call: {:#x} at the call, {:#x} on return", *p.add(7), *p.add(6)));
    }
    (status as u8, problem)
}
