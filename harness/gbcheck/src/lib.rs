//! gbcheck as a library: the check engine, the machine adapters, the reference
//! machine, the program generator and the checks themselves, so that the
//! command-line driver (main.rs) and the fuzz targets (../fuzz) share them.
pub mod checks;
pub mod engine;
pub mod mach;
pub mod prog;
pub mod refmach;
pub mod rom;
pub mod sysobs;
