//! gbcheck <Cxx> [--tier quick|thorough] [--replay file]
use gbcheck::{checks, engine};

use engine::Tier;

fn main() {
    let args: Vec<String> = std::env::args().collect();
    if args.len() < 2 {
        eprintln!("usage: gbcheck <property> [--tier quick|thorough] [--replay file]");
        std::process::exit(2);
    }
    let prop = args[1].as_str();
    let mut tier = match std::env::var("VERIF_TIER").ok().as_deref() {
        Some("thorough") => Tier::Thorough,
        _ => Tier::Quick,
    };
    let mut replay: Option<String> = None;
    let mut i = 2;
    while i < args.len() {
        match args[i].as_str() {
            "--tier" => {
                i += 1;
                tier = if args.get(i).map(|s| s.as_str()) == Some("thorough") { Tier::Thorough } else { Tier::Quick };
            }
            "quick" => tier = Tier::Quick,
            "thorough" => tier = Tier::Thorough,
            "--replay" => {
                i += 1;
                replay = args.get(i).cloned();
            }
            other => {
                eprintln!("unknown argument {}", other);
                std::process::exit(2);
            }
        }
        i += 1;
    }
    let seed = std::env::var("VERIF_SEED").ok().and_then(|s| s.parse::<u64>().ok()).unwrap_or(0);
    let def = match checks::find(prop) {
        Some(d) => d,
        None => {
            eprintln!("no check for property {}", prop);
            std::process::exit(2);
        }
    };
    // quiet panic messages from expected, caught panics inside the code under test
    std::panic::set_hook(Box::new(|info| {
        if std::env::var("VERIF_SHOW_PANICS").is_ok() {
            eprintln!("{}", info);
        }
    }));
    let outcome = match replay {
        Some(path) => engine::run_replay(def, &path),
        None => engine::run_check(def, tier, seed),
    };
    std::process::exit(outcome.exit);
}
