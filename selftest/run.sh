#!/bin/bash
# Sensitivity self-test (DESIGN.md sections 7 and 11).
#   selftest/run.sh seeded [name-prefix]   every seeded change under /verif/seeded is applied to
#                                          /repo in turn, the checks listed in its meta.json under
#                                          "caught_by" must report a violation (exit 1), the tree is
#                                          restored afterwards
#   selftest/run.sh silence [N]            all quick checks under VERIF_SEED = 0..N-1 on the
#                                          unchanged tree must exit 0
# Exit 0 when everything behaved as recorded.
set -u
cd /verif
mode="${1:-seeded}"
bad=0
if [ "$mode" = "silence" ]; then
  n="${2:-3}"
  ids=$(python3 -c "import json;print(' '.join(c['property_id'] for c in json.load(open('/verif/MANIFEST.json'))['checks']))")
  for seed in $(seq 0 $((n-1))); do
    for c in $ids; do
      out=$(VERIF_SEED=$seed ./check "$c" quick 2>&1); rc=$?
      if [ $rc -ne 0 ]; then echo "NOT SILENT: seed=$seed $c exit=$rc"; echo "$out" | grep -E "VIOLATION|INCONCLUSIVE" | head -3; bad=1; else echo "silent: seed=$seed $c"; fi
    done
  done
  exit $bad
fi
prefix="${2:-}"
for d in seeded/${prefix}*/; do
  name=$(basename "$d")
  [ -f "$d/meta.json" ] || continue
  if ! git -C /repo apply --check "$(readlink -f "$d/patch.diff")" 2>/dev/null; then
    echo "$name: patch does not apply to the current tree (see base_commit in meta.json) - skipped"
    continue
  fi
  caught=$(python3 -c "import json,sys;print(' '.join(json.load(open(sys.argv[1]))['caught_by']))" "$d/meta.json")
  if [ -z "$caught" ]; then echo "$name: recorded as not reported (gray zone) - skipped"; continue; fi
  res=$(tools/run_on_patch.sh "$d/patch.diff" $caught 2>&1)
  for c in $caught; do
    if echo "$res" | grep -q "^$c exit=1"; then echo "$name: $c reports it"; else echo "$name: $c DID NOT REPORT IT"; echo "$res" | grep "^$c" ; bad=1; fi
  done
done
exit $bad
